"""Run a list of cases of a property module in a separately *spawned* interpreter with a different
process-level configuration (NUMBA_DISABLE_JIT=1, another threading layer, ...).

parent:  results = subrun.run("vf.props.c18", cases, {"NUMBA_DISABLE_JIT": "1"}, nproc=8)
child :  python -m vf.core.subrun <module> <cases.json> <out.json> <nproc>
"""

import importlib
import json
import os
import subprocess
import sys
import tempfile


def run(modname, cases, env_extra, nproc=8, timeout=6000, func="run_case"):
    with tempfile.TemporaryDirectory(prefix="vf-sub-") as td:
        cp, op = os.path.join(td, "cases.json"), os.path.join(td, "out.json")
        from .runner import _json_default

        json.dump(cases, open(cp, "w"), default=_json_default)
        env = dict(os.environ, PYTHONHASHSEED="0")  # PYTHONPATH is inherited
        env.update(env_extra)
        p = subprocess.run([sys.executable, "-W", "ignore", "-m", "vf.core.subrun", modname, cp, op, str(nproc), func], env=env, capture_output=True, text=True, cwd=os.path.dirname(os.path.dirname(os.path.dirname(os.path.abspath(__file__)))), timeout=timeout)
        if not os.path.exists(op):
            raise RuntimeError("sub-run of %s with %s failed:\n%s\n%s" % (modname, env_extra, p.stdout[-3000:], p.stderr[-3000:]))
        return json.load(open(op))


def main():
    import warnings

    warnings.filterwarnings("ignore")
    modname, cp, op, nproc, func = sys.argv[1], sys.argv[2], sys.argv[3], int(sys.argv[4]), sys.argv[5]
    mod = importlib.import_module(modname)
    from . import pool
    from .runner import Ctx, _json_default

    cases = json.load(open(cp))
    pool.prepare(mod, "quick")
    ctx = Ctx(getattr(mod, "ID", "sub"), "quick", 0, nproc)
    out = []
    f = getattr(mod, func)
    for idx, res in pool.run(ctx, f, list(enumerate(cases)), 1):
        res["_case"] = cases[idx]
        out.append(res)
    pool.shutdown()
    json.dump(out, open(op, "w"), default=_json_default)


if __name__ == "__main__":
    main()
