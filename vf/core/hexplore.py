"""Explorer H: explicit-state breadth-first search over histories of public
operations executed on real Grid objects.

A *state* is the history that reaches it; live objects are rebuilt by replaying
the history on fresh grids in restored module state.  States are de-duplicated
by ``canon`` = digest of every live grid's ``__dict__`` plus every module-level
container of ``uxarray.*``.  Every transition (prefix -> prefix+[event]) is
checked: the value returned by the last event must equal the value the same
event returns on a freshly built grid (REF), and module state must equal the
import-time state.
"""

import traceback

import numpy as np

from . import pool
from .state import digest, grid_digest
from ..alpha import events as E


class Setup:
    """named collection of grid builders (tag -> zero-argument callable)."""

    def __init__(self, name, builders):
        self.name = name
        self.builders = dict(builders)
        self.tags = sorted(self.builders)


class Explorer:
    def __init__(self, prop, setups, events, derived_names=E.ATTRS, judge=None, tol=1e-12, extra_invariant=None):
        self.prop = prop.lower()
        self.setups = {s.name: s for s in setups}
        self.events = events
        self.ref = {}  # (setup, tag) -> {event: ("ok", obs) | ("exc", clsname)}
        self.derived = set(derived_names)
        self.judge = judge
        self.tol = tol
        self.extra_invariant = extra_invariant

    # ------------------------------------------------------------------ REF
    def compute_ref(self, only_setups=None):
        for sname, s in self.setups.items():
            if only_setups and sname not in only_setups:
                continue
            for tag in s.tags:
                if (sname, tag) in self.ref:
                    continue
                table = {}
                for en, (kind, fn) in self.events.items():
                    pool.fresh()
                    g = s.builders[tag]()
                    try:
                        table[en] = ("ok", fn(g))
                    except Exception as e:
                        table[en] = ("exc", type(e).__name__, str(e)[:200])
                self.ref[(sname, tag)] = table
        pool.fresh()

    def ref_digest(self, sname):
        s = self.setups[sname]
        return digest([(tag, en, r[0], r[1] if r[0] == "exc" else sorted((k, digest(v)) for k, v in r[1].items())) for tag in s.tags for en, r in sorted(self.ref[(sname, tag)].items())])

    # ------------------------------------------------------------------ one history
    def canon(self, grids, md=None):
        snap = pool.snapshot()
        return digest([[t, grid_digest(grids[t])] for t in sorted(grids)] + [md or snap.digest()])

    def replay(self, sname, hist, check_from=0, want_canon_at=None):
        """Execute ``hist`` (list of [tag, event]) on fresh grids.  Returns
        (grids, violations, canon, outcome_digests).  Steps with index >=
        check_from are judged."""
        s = self.setups[sname]
        pool.fresh()
        snap = pool.snapshot()
        grids = {t: s.builders[t]() for t in s.tags}
        viols, outs = [], []
        mdig = None
        for i, (tag, en) in enumerate(hist):
            kind, fn = self.events[en]
            try:
                res = ("ok", fn(grids[tag]))
            except Exception as e:
                res = ("exc", type(e).__name__, str(e)[:300])
            if want_canon_at is not None and i == want_canon_at[0] - 1:
                c = self.canon(grids)
                if c != want_canon_at[1]:
                    raise RuntimeError("nondeterminism not captured: replaying %r reached a different state (%s != %s)" % (hist[: i + 1], c, want_canon_at[1]))
            if i >= check_from:
                hv = self._judge(sname, tag, en, kind, res, hist[: i + 1])
                mdig = snap.digest()
                md = snap.diff() if mdig != snap.base_digest else None
                if md:
                    hv.append(("module-state", "%s:module-state-changed:%s" % (self.prop, "+".join(sorted(x.split(" ")[0].replace("uxarray.", "") for x in md))[:120]), "after %s on grid %s module-level objects differ from import time: %s" % (en, tag, md)))
                if self.extra_invariant:
                    hv += self.extra_invariant(self, sname, grids, hist[: i + 1])
                for oracle, sig, msg in hv:
                    viols.append({"oracle": oracle, "sig": sig, "msg": "history %s: %s" % (" ; ".join("%s.%s" % (t, e) for t, e in hist[: i + 1]), msg), "focus": {"kind": "one", "setup": sname, "hist": [list(x) for x in hist[: i + 1]]}})
                outs.append(digest((tag, en, res[0], res[1] if res[0] == "exc" else sorted((k, digest(v)) for k, v in res[1].items()))))
        return grids, viols, self.canon(grids, mdig if hist and len(hist) > check_from else None), outs

    def _judge(self, sname, tag, en, kind, res, hist):
        ref = self.ref[(sname, tag)][en]
        if self.judge is not None:
            r = self.judge(self, sname, tag, en, kind, res, ref, hist)
            if r is not None:
                return r
        out = []
        p = self.prop
        if ref[0] == "exc":
            if res[0] == "exc":
                if res[1] != ref[1]:
                    out.append((en, "%s:%s:raises-differently" % (p, en), "raises %s, a fresh grid raises %s" % (res[1], ref[1])))
            else:
                out.append((en, "%s:%s:returns-where-fresh-raises:%s" % (p, en, ref[1]), "returns a value, but the same call on a fresh grid raises %s (%s)" % (ref[1], ref[2])))
            return out
        if res[0] == "exc":
            out.append((en, "%s:%s:raises:%s" % (p, en, res[1]), "raises %s (%s); a fresh grid returns a value" % (res[1], res[2])))
            return out
        obs, robs = res[1], ref[1]
        if kind == "value":
            d = E.same(robs, obs, self.tol)
            if d:
                out.append((en, "%s:%s:value-differs" % (p, en), "differs from the fresh-grid value: %s" % "; ".join(d[:4])))
        elif kind == "export":
            out += self._judge_export(sname, tag, en, obs, robs)
        elif kind == "inventory":
            for k, rv in robs.items():
                v = obs.get(k)
                if k == "repr":
                    continue
                if k == "sizes":
                    dv, drv = dict(v), dict(rv)
                    bad = [x for x in drv if dv.get(x) != drv[x]]
                    extra = [x for x in dv if x not in drv]
                else:
                    bad = [x for x in rv if x not in v]
                    extra = [x for x in v if x not in rv]
                if bad:
                    out.append((en, "%s:%s:inventory-lost" % (p, en), "%s of the fresh grid no longer reported/equal: %s" % (k, bad)))
        return out

    def _judge_export(self, sname, tag, en, obs, robs):
        """exports may only gain derived variables, each equal to the fresh value of that attribute"""
        out = []
        p = self.prop
        table = self.ref[(sname, tag)]
        base_vars = {k for k in robs if "#" not in k and "@" not in k and not k.startswith("<")}
        problems = []
        for k in sorted(set(obs) | set(robs)):
            var = k.split("#")[0].split("@")[0]
            if var == "grid_topology" and "@" in k:
                continue
            if k == "<sizes>":
                a = dict(x.split("=") for x in obs.get(k, "").split(",") if x)
                b = dict(x.split("=") for x in robs.get(k, "").split(",") if x)
                badk = [x for x in b if a.get(x) != b[x]]
                if badk:
                    problems.append("sizes %s differ" % badk)
                continue
            if var in base_vars or k.startswith("<"):
                if k not in obs:
                    problems.append("%s missing" % k)
                elif k not in robs:
                    problems.append("%s unexpected" % k)
                else:
                    r = E.same_value(robs[k], obs[k], self.tol)
                    if r:
                        problems.append("%s: %s" % (k, r))
                continue
            # extra variable: must be a derived quantity with its fresh value
            if k not in obs:
                continue
            a = table.get("attr:" + var)
            if a is None or a[0] != "ok":
                problems.append("%s: extra variable that is not a derived grid quantity" % k)
                continue
            if k not in a[1]:
                if "@" in k:
                    problems.append("%s: extra attribute" % k)
                continue
            r = E.same_value(a[1][k], obs[k], self.tol)
            if r:
                problems.append("%s (derived so far): %s" % (k, r))
        if problems:
            out.append((en, "%s:%s:export-differs" % (p, en), "export differs from a fresh grid's beyond added derived variables: %s" % "; ".join(problems[:4])))
        return out

    # ------------------------------------------------------------------ pool tasks
    def task(self, case):
        """case kinds: 'one' (check every step from check_from), 'expand' (try every event after a prefix)."""
        res = {"violations": [], "evaluations": 0, "transitions": 0, "nontrivial": [], "outcomes": [], "axes": {}, "states": [], "succ": []}
        sname = case["setup"]
        if (sname, self.setups[sname].tags[0]) not in self.ref:
            self.compute_ref([sname])
        if case["kind"] == "one":
            hist = [tuple(x) for x in case["hist"]]
            g, v, c, outs = self.replay(sname, hist, check_from=case.get("check_from", max(0, len(hist) - 1)))
            res["violations"] += v
            res["evaluations"] += 1
            res["transitions"] += len(hist) - case.get("check_from", max(0, len(hist) - 1))
            res["states"].append(c)
            res["outcomes"] += outs
            res["succ"].append((None, c))
            res["nontrivial"].append(c)
            res["sample"] = {"setup": sname, "history": ["%s.%s" % x for x in hist]}
            return res
        prefix = [tuple(x) for x in case["hist"]]
        alphabet = case.get("alphabet") or [(t, e) for t in self.setups[sname].tags for e in self.events]
        want = (len(prefix), case["canon"]) if prefix and case.get("canon") else None
        for tag, en in alphabet:
            hist = prefix + [(tag, en)]
            g, v, c, outs = self.replay(sname, hist, check_from=len(prefix), want_canon_at=want)
            res["violations"] += v
            res["evaluations"] += 1
            res["transitions"] += 1
            res["states"].append(c)
            res["outcomes"] += outs
            res["succ"].append(((tag, en), c))
            if c != case.get("canon"):
                res["nontrivial"].append(c)  # the event changed the state
        res["axes"] = {"depth": {len(prefix) + 1: len(alphabet)}, "setup": {sname: len(alphabet)}}
        res["sample"] = {"setup": sname, "history": ["%s.%s" % x for x in prefix] + ["<every event>"]}
        return res

    # ------------------------------------------------------------------ BFS driver (parent)
    def bfs(self, ctx, sname, depth, seeds=((),), alphabet=None, expand_filter=None, label=""):
        """Breadth-first search from each seed prefix.  Returns stats dict."""
        seen = {}
        frontier = []
        stats = {"setup": sname, "levels": [], "seeds": len(seeds)}
        # seeds: executed and fully checked
        seed_cases = [{"kind": "one", "setup": sname, "hist": [list(x) for x in sd], "check_from": 0} for sd in seeds]
        for case, r in zip(seed_cases, ctx.map(self.task, seed_cases)):
            c = r["succ"][0][1]
            if c not in seen:
                seen[c] = case["hist"]
                frontier.append((case["hist"], c))
        for d in range(depth):
            cases = [{"kind": "expand", "setup": sname, "hist": h, "canon": c, "alphabet": alphabet} for h, c in frontier]
            results = ctx.map(self.task, cases)
            nxt = []
            ntrans = 0
            for case, r in zip(cases, results):
                for (ev, c) in r["succ"]:
                    ntrans += 1
                    if c not in seen:
                        h2 = case["hist"] + [list(ev)]
                        seen[c] = h2
                        if expand_filter is None or expand_filter(h2):
                            nxt.append((h2, c))
            stats["levels"].append({"depth": d + 1, "expanded_states": len(frontier), "transitions": ntrans, "new_states": len(nxt)})
            frontier = nxt
            if not frontier:
                break
        stats["distinct_states"] = len(seen)
        stats["unexpanded_frontier"] = len(frontier)
        ctx.extra.setdefault("bfs", []).append(dict(stats, label=label))
        return stats
