"""Evidence writer, schema validation and the determinism self-test."""

import json
import os
import subprocess
import sys
import tempfile

from .runner import VERIF, Vacuous, _json_default, canon_json

SCHEMA = "/root/.vp/EVIDENCE.schema.json"


def _outcome(res):
    return sorted(res.get("outcomes", ())), sorted(v.get("sig", "") for v in res.get("violations", ()))


def selftest(ctx, mod):
    """(1) one recorded case executed twice in this process and once in a
    freshly *spawned* interpreter must give identical observation digests.
    A mismatch means nondeterminism the harness does not own: hard error."""
    from . import pool

    if not hasattr(mod, "selftest_case"):
        ctx.extra["selftest"] = "none declared"
        return
    case = mod.selftest_case(ctx.tier)
    a = _outcome(pool.run_one(mod.run_case, case))
    b = _outcome(pool.run_one(mod.run_case, case))
    if a != b:
        raise RuntimeError("self-test: same case gave different observations twice in one process:\n%r\n%r" % (a, b))
    st = {"same_process_twice": "identical", "n_digests": len(a[0])}
    if os.environ.get("VERIF_SPAWN_SELFTEST", "1") != "0":
        with tempfile.NamedTemporaryFile("w", suffix=".json", delete=False) as f:
            json.dump(case, f, default=_json_default)
            p = f.name
        try:
            env = dict(os.environ, PYTHONHASHSEED="0")  # PYTHONPATH is inherited (harness dir [+ VERIF_REPO])
            out = subprocess.run(
                [sys.executable, "-m", "vf.core.oneshot", ctx.pid, p, ctx.tier],
                capture_output=True,
                text=True,
                env=env,
                cwd=VERIF,
                timeout=900,
            )
            line = [l for l in out.stdout.splitlines() if l.startswith("ONESHOT ")]
            if not line:
                raise RuntimeError("self-test: spawned interpreter failed:\n" + out.stdout[-2000:] + out.stderr[-2000:])
            c = json.loads(line[-1][len("ONESHOT "):])
            c = (c[0], c[1])
            if (list(a[0]), list(a[1])) != (list(c[0]), list(c[1])):
                raise RuntimeError("self-test: spawned fresh interpreter observed differently:\n%r\n%r" % (a, c))
            st["fresh_interpreter"] = "identical"
        finally:
            os.unlink(p)
    ctx.extra["selftest"] = st


def write_evidence(ctx, mod, wall, new, known):
    states = len(ctx.states) if ctx.states else ctx.evaluations
    cov = {
        "states": int(states),
        "transitions": int(ctx.transitions),
        "traces_validated_against_impl": int(ctx.evaluations),
        "samples": json.loads(canon_json(ctx.samples[:6])) or ["<none>"],
        "evaluations": int(ctx.evaluations),
        "distinct_nontrivial": int(len(ctx.nontrivial)),
        "rule": getattr(mod, "RULE", ""),
        "exhaustive": bool(ctx.exhaustive),
        "bound_completed": ctx.bound or getattr(mod, "BOUNDS", {}).get(ctx.tier, ""),
        "caps_hit": ctx.caps,
        "distinct_outcomes": int(len(ctx.outcomes)),
        "axes": {k: dict(sorted(v.items())[:40]) for k, v in sorted(ctx.axes.items())},
        "explanation": "every trace is an execution of the real implementation (there is no separate model); "
        "states = distinct canonical states / distinct input cases, transitions = implementation operations executed and checked",
        "known_findings_matched": {k["sig"] or ",".join(sorted(k["cases"] or [])): k["hits"] for k in known if k["hits"]},
    }
    cov.update(json.loads(canon_json(ctx.extra)))
    ev = {
        "property_id": ctx.pid,
        "tier": ctx.tier,
        "seed": int(ctx.seed),
        "level": "model_checking",
        "coverage": cov,
        "assumptions": list(getattr(mod, "ASSUMPTIONS", [])),
        "wall_s": round(float(wall), 2),
        "violations": len(new),
    }
    if ctx.evaluations < 1 or states < 1 or ctx.transitions < 1:
        raise Vacuous("nothing explored")
    if len(ctx.nontrivial) < 2:
        raise Vacuous("fewer than 2 distinct non-trivial cases")
    d = os.path.join(VERIF, "evidence")
    os.makedirs(d, exist_ok=True)
    path = os.path.join(d, ctx.pid + ".json")
    tmp = path + ".tmp"
    with open(tmp, "w") as f:
        json.dump(ev, f, indent=1, sort_keys=True, default=_json_default)
    os.replace(tmp, path)
    validate(path)
    return path


def validate(path):
    vt = "/opt/veriftools/pyvenv/bin/python"
    if not os.path.exists(vt) or not os.path.exists(SCHEMA):
        return
    code = (
        "import json,sys,jsonschema;"
        "jsonschema.validate(json.load(open(sys.argv[1])), json.load(open(sys.argv[2])));print('ok')"
    )
    r = subprocess.run([vt, "-c", code, path, SCHEMA], capture_output=True, text=True, env={"PATH": os.environ.get("PATH", "")})
    if r.returncode != 0:
        raise RuntimeError("evidence does not validate against schema:\n" + r.stderr[-1500:])
