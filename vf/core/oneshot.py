"""Run one case in a fresh interpreter: ``python -m vf.core.oneshot Cxx case.json tier``."""
import importlib
import json
import sys
import warnings

warnings.filterwarnings("ignore")


def main():
    pid, path, tier = sys.argv[1], sys.argv[2], sys.argv[3]
    mod = importlib.import_module("vf.props." + pid.lower())
    from . import pool
    from .report import _outcome

    # deliberately NO warm-up: the fresh interpreter executes just this case
    pool.import_all_uxarray()
    from .state import ModuleSnapshot

    pool._SNAP = ModuleSnapshot()
    pool._MOD = mod
    try:
        import dask

        dask.config.set(scheduler="synchronous")
        import matplotlib

        matplotlib.use("Agg")
    except Exception:
        pass
    if hasattr(mod, "worker_init"):
        mod.worker_init()
    case = json.load(open(path))
    res = pool.run_one(mod.run_case, case)
    print("ONESHOT " + json.dumps(_outcome(res)))


if __name__ == "__main__":
    main()
