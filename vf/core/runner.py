"""Entry point: ``python -m vf.core.runner Cxx [--tier quick|thorough] [--replay file]``.

Exit status: 0 = property held on everything explored (known findings are
printed, not counted); 1 = at least one unlisted violation; 2 = the machinery
itself failed (self-test, vacuity guard, schema) -- never used to hide a
violation.
"""

import argparse
import hashlib
import importlib
import json
import os
import random
import sys
import time
import traceback
import warnings

VERIF = os.path.dirname(os.path.dirname(os.path.dirname(os.path.abspath(__file__))))


def canon_json(o):
    return json.dumps(o, sort_keys=True, separators=(",", ":"), default=_json_default)


def _json_default(o):
    import numpy as np

    if isinstance(o, np.generic):
        return o.item()
    if isinstance(o, np.ndarray):
        return o.tolist()
    if isinstance(o, (set, frozenset)):
        return sorted(o)
    if isinstance(o, tuple):
        return list(o)
    return repr(o)


def case_id(case, oracle=""):
    return hashlib.sha1((canon_json(case) + "|" + oracle).encode()).hexdigest()[:12]


class Vacuous(Exception):
    pass


class Ctx:
    """What a property module sees."""

    def __init__(self, pid, tier, seed, nproc):
        self.pid = pid
        self.tier = tier
        self.seed = seed
        self.nproc = nproc
        self.t0 = time.time()
        self.evaluations = 0
        self.transitions = 0
        self.states = set()
        self.nontrivial = set()
        self.outcomes = set()
        self.axes = {}
        self.violations = []  # dicts: case, focus, oracle, sig, msg
        self.viol_counts = {}
        self.samples = []
        self._sample_rng = random.Random(seed)
        self._nsample_seen = 0
        self.extra = {}
        self.exhaustive = True
        self.bound = ""
        self.caps = []
        self.pool = None

    # ---- aggregation ---------------------------------------------------------
    def add(self, case, res):
        """Fold the result of one executed case into the run totals."""
        self.evaluations += int(res.get("evaluations", 1))
        self.transitions += int(res.get("transitions", 1))
        for s in res.get("states", ()):
            self.states.add(s)
        for s in res.get("nontrivial", ()):
            self.nontrivial.add(s)
        for s in res.get("outcomes", ()):
            self.outcomes.add(s)
        for k, vals in res.get("axes", {}).items():
            d = self.axes.setdefault(k, {})
            if isinstance(vals, dict):
                for v, n in vals.items():
                    d[str(v)] = d.get(str(v), 0) + int(n)
            else:
                for v in vals:
                    d[str(v)] = d.get(str(v), 0) + 1
        for v in res.get("violations", ()):
            n = self.viol_counts.get(v.get("sig"), 0)
            self.viol_counts[v.get("sig")] = n + 1
            if n >= 300:
                continue
            v = dict(v)
            v.setdefault("case", case)
            self.violations.append(v)
        # reservoir of samples
        smp = res.get("sample", case)
        self._nsample_seen += 1
        if len(self.samples) < 6:
            self.samples.append(smp)
        else:
            j = self._sample_rng.randrange(self._nsample_seen)
            if j < 6:
                self.samples[j] = smp

    def map(self, func, cases, chunksize=1):
        """Run ``func(case)`` for every case on the worker pool, folding results
        in; returns list of (case, result) for callers that need them (BFS)."""
        from . import pool

        cases = list(cases)
        order = list(range(len(cases)))
        random.Random(self.seed).shuffle(order)  # seed only rotates distribution
        out = [None] * len(cases)
        for idx, res in pool.run(self, func, [(i, cases[i]) for i in order], chunksize):
            if "error" in res:
                raise RuntimeError("worker failed on case %s:\n%s" % (canon_json(cases[idx])[:500], res["error"]))
            self.add(cases[idx], res)
            out[idx] = res
        return out

    def cap(self, what):
        self.exhaustive = False
        self.caps.append(what)


def load_known(pid):
    path = os.path.join(VERIF, "known_findings.txt")
    known = []
    if os.path.exists(path):
        for line in open(path):
            line = line.strip()
            if not line.startswith("finding:"):
                continue
            body = line[len("finding:"):].strip()
            toks = body.split()
            kv = {}
            rest = []
            for t in toks:
                if "=" in t and not rest and t.split("=", 1)[0] in ("property", "sig", "case", "count"):
                    k, v = t.split("=", 1)
                    kv[k] = v
                else:
                    rest.append(t)
            if kv.get("property") != pid:
                continue
            known.append(
                {
                    "sig": kv.get("sig"),
                    "cases": set(kv["case"].split(",")) if "case" in kv else None,
                    # count=quick:N,thorough:M  -- the exploration is exhaustive and deterministic, so the number of failing
                    # cases of a known class is itself pinned: any other number is reported as a new violation
                    "counts": dict((x.split(":")[0], int(x.split(":")[1])) for x in kv["count"].split(",")) if "count" in kv else None,
                    "text": " ".join(rest),
                    "hits": 0,
                }
            )
    return known


def match_known(known, v):
    for k in known:
        if k["sig"] is not None and k["sig"] != v["sig"]:
            continue
        if k["cases"] is not None and v["id"] not in k["cases"]:
            continue
        if k["sig"] is None and k["cases"] is None:
            continue
        return k
    return None


def write_replay(pid, v):
    d = os.path.join(VERIF, "replays", pid)
    os.makedirs(d, exist_ok=True)
    path = os.path.join(d, v["id"] + ".json")
    body = {
        "property": pid,
        "id": v["id"],
        "oracle": v.get("oracle"),
        "sig": v.get("sig"),
        "msg": v.get("msg"),
        "case": v.get("case"),
        "focus": v.get("focus"),
        "replay": "cd /verif && ./check %s --replay %s" % (pid, path),
        "pytest": (
            "def test_replay_%s_%s():\n"
            "    import json, importlib\n"
            "    from vf.core import pool\n"
            "    mod = importlib.import_module('vf.props.%s')\n"
            "    pool.prepare(mod, 'quick')\n"
            "    rec = json.load(open(%r))\n"
            "    res = pool.run_one(mod.run_case, rec['case'])\n"
            "    assert not [v for v in res['violations'] if v['sig'] == rec['sig']]\n"
        )
        % (pid, v["id"], pid.lower(), path),
    }
    with open(path, "w") as f:
        json.dump(body, f, indent=1, default=_json_default, sort_keys=True)
    return path


def main(argv=None):
    ap = argparse.ArgumentParser()
    ap.add_argument("pid")
    ap.add_argument("--tier", default=os.environ.get("VERIF_TIER", "quick"), choices=["quick", "thorough"])
    ap.add_argument("--replay", default=None)
    ap.add_argument("--nproc", type=int, default=int(os.environ.get("VERIF_NPROC", "0")) or min(16, os.cpu_count() or 1))
    ap.add_argument("--no-evidence", action="store_true")
    args = ap.parse_args(argv)
    pid = args.pid.upper()
    try:
        seed = int(os.environ.get("VERIF_SEED", "0"))
    except ValueError:
        seed = 0
    warnings.filterwarnings("ignore")
    os.environ.setdefault("PYTHONWARNINGS", "ignore")

    mod = importlib.import_module("vf.props." + pid.lower())
    from . import pool, report

    ctx = Ctx(pid, args.tier, seed, args.nproc)
    t0 = time.time()
    try:
        pool.prepare(mod, args.tier)
        if args.replay:
            return replay(mod, pid, args.replay)
        report.selftest(ctx, mod)
        mod.run(ctx)
        pool.shutdown()
        interp_pass(ctx, mod)
    except Vacuous as e:
        pool.shutdown()
        print("INTERNAL-ERROR: vacuous exploration: %s" % e)
        return 2
    except Exception:
        pool.shutdown()
        traceback.print_exc()
        print("INTERNAL-ERROR: machinery failed (not a property verdict)")
        return 2
    wall = time.time() - t0

    known = load_known(pid)
    new = []
    seen_ids = set()
    for v in ctx.violations:
        v["id"] = case_id({"case": v.get("focus", v.get("case")), "sig": v.get("sig")}, v.get("oracle", ""))
        if v["id"] in seen_ids:
            continue
        seen_ids.add(v["id"])
        k = match_known(known, v)
        if k is not None:
            k["hits"] += 1
            if k["hits"] == 1:
                k["witness"] = write_replay(pid, v)
            continue
        new.append(v)
    for k in known:
        total = ctx.viol_counts.get(k["sig"], k["hits"]) if k["sig"] else k["hits"]
        if k["hits"]:
            print("KNOWN-FINDING: property=%s %s [sig=%s cases=%d witness=%s]" % (pid, k["text"], k["sig"], total, k.get("witness")))
        if k.get("counts") and args.tier in k["counts"] and not args.replay:
            want = k["counts"][args.tier]
            if total != want:
                new.append({"id": case_id({"population": k["sig"], "n": total}), "sig": "%s:population-changed" % k["sig"], "oracle": "known-finding-population",
                            "msg": "the known finding '%s' lists %d failing cases for the %s tier, this run found %d: the defect changed" % (k["sig"], want, args.tier, total),
                            "case": {"kind": "population", "sig": k["sig"]}, "focus": {"kind": "population", "sig": k["sig"]}})
    # report at most 25 violation lines, fewest-deviation first (cases are generated simplest-first)
    new.sort(key=lambda v: (len(canon_json(v.get("focus", v.get("case")))), v["id"]))
    by_sig = {}
    for v in new:
        by_sig.setdefault(v["sig"], []).append(v)
    shown = 0
    for sig, vs in sorted(by_sig.items(), key=lambda kv: kv[0]):
        for v in vs[:3]:
            path = write_replay(pid, v)
            print("VIOLATION property=%s replay=%s" % (pid, path))
            print("  oracle=%s sig=%s\n  %s" % (v.get("oracle"), v.get("sig"), str(v.get("msg"))[:600]))
            shown += 1
        if ctx.viol_counts.get(sig, len(vs)) > 3:
            print("  (+%d more cases with sig=%s)" % (ctx.viol_counts.get(sig, len(vs)) - 3, sig))
    if not args.no_evidence:
        report.write_evidence(ctx, mod, wall, new, known)
    print(
        "%s tier=%s seed=%d evaluations=%d states=%d transitions=%d nontrivial=%d outcomes=%d exhaustive=%s violations=%d known=%d wall=%.1fs"
        % (
            pid,
            args.tier,
            seed,
            ctx.evaluations,
            len(ctx.states),
            ctx.transitions,
            len(ctx.nontrivial),
            len(ctx.outcomes),
            ctx.exhaustive,
            len(new),
            sum(k["hits"] for k in known),
            wall,
        )
    )
    return 1 if new else 0


def mark_interp(mod, r):
    """violations found with NUMBA_DISABLE_JIT=1 get their own signatures and a focus that replays in that mode"""
    pre = mod.ID.lower() + ":"
    for v in r.get("violations", []):
        if ":jit-off:" not in v["sig"]:
            v["sig"] = v["sig"].replace(pre, pre + "jit-off:", 1)
            v["msg"] = "[NUMBA_DISABLE_JIT=1] " + str(v.get("msg"))
        if isinstance(v.get("focus"), dict):
            v["focus"]["jit"] = "off"
    return r


def interp_pass(ctx, mod):
    """generic interpreted pass: modules that define interp_cases(tier) get those cases re-run in spawned interpreters with
    NUMBA_DISABLE_JIT=1 (numba reads the switch at import time), i.e. with every @njit kernel executed as plain Python"""
    if not hasattr(mod, "interp_cases"):
        return
    from . import subrun

    cs = list(mod.interp_cases(ctx.tier))
    results = subrun.run(mod.__name__, cs, {"NUMBA_DISABLE_JIT": "1"}, nproc=min(8, ctx.nproc))
    n = 0
    for r in results:
        c = r.pop("_case")
        ctx.add(dict(c, jit="off"), mark_interp(mod, r))
        n += int(r.get("evaluations", 0))
    if cs and not n:
        raise Vacuous("interpreted pass evaluated nothing")
    ctx.extra["jit_off_pass"] = {"cases": len(results), "evaluations": n}


def replay(mod, pid, path):
    from . import pool

    rec = json.load(open(path))
    if isinstance(rec.get("case"), dict) and rec["case"].get("jit") == "off" and hasattr(mod, "interp_cases") and os.environ.get("NUMBA_DISABLE_JIT") != "1":
        from . import subrun

        case = {k: v for k, v in rec["case"].items() if k != "jit"}
        res = mark_interp(mod, subrun.run(mod.__name__, [case], {"NUMBA_DISABLE_JIT": "1"}, nproc=1)[0])
        for v in res.get("violations", ()):
            if isinstance(v.get("focus"), dict):
                v["focus"]["jit"] = "off"
    else:
        res = pool.run_one(mod.run_case, rec["case"])
    hits = [v for v in res.get("violations", ()) if rec.get("sig") in (None, v.get("sig"))]
    exact = [v for v in hits if rec.get("focus") is not None and canon_json(v.get("focus")) == canon_json(rec.get("focus"))]
    if exact:
        hits = exact
    print("replay of %s: %d violation(s) reproduced (%d total in this case)" % (path, len(hits), len(res.get("violations", ()))))
    for v in hits[:10]:
        print("  oracle=%s sig=%s\n  %s" % (v.get("oracle"), v.get("sig"), str(v.get("msg"))[:1500]))
    if hits:
        print("VIOLATION property=%s replay=%s" % (pid, path))
        return 1
    return 0


if __name__ == "__main__":
    sys.exit(main())
