"""Warm-up in the parent, then long-lived forked workers.

Every execution of a case starts from the import-time module state of
``uxarray.*`` (restored in place from a snapshot) and a fixed numpy seed.
"""

import importlib
import multiprocessing as mp
import os
import pkgutil
import sys
import traceback
import warnings

_SNAP = None
_POOL = None
_MOD = None


def import_all_uxarray():
    import uxarray

    for m in pkgutil.walk_packages(uxarray.__path__, "uxarray."):
        try:
            importlib.import_module(m.name)
        except Exception:
            pass
    return uxarray


def snapshot():
    return _SNAP


def prepare(mod, tier):
    """Import uxarray completely, snapshot its module state, run the property's
    warm-up (JIT compilation) and put the module state back."""
    global _SNAP, _MOD
    warnings.filterwarnings("ignore")
    import numpy as np

    import_all_uxarray()
    from .state import ModuleSnapshot

    if _SNAP is None:
        _SNAP = ModuleSnapshot()
    _MOD = mod
    try:
        import dask

        dask.config.set(scheduler="synchronous")
    except Exception:
        pass
    try:
        import matplotlib

        matplotlib.use("Agg")
    except Exception:
        pass
    if hasattr(mod, "warmup"):
        np.random.seed(0)
        try:
            mod.warmup(tier)
        finally:
            _SNAP.restore()
    try:
        import numba

        numba.set_num_threads(1)
    except Exception:
        pass


def fresh():
    """Reset process state owned by the harness before one execution."""
    import numpy as np

    _SNAP.restore()
    np.random.seed(0)


def run_one(func, case):
    fresh()
    return func(case)


def _call(arg):
    func, idx, case = arg
    try:
        fresh()
        res = func(case)
        return idx, res
    except BaseException:
        return idx, {"error": traceback.format_exc()}


def _init_worker():
    warnings.filterwarnings("ignore")
    try:
        import numba

        numba.set_num_threads(1)
    except Exception:
        pass
    if _MOD is not None and hasattr(_MOD, "worker_init"):
        _MOD.worker_init()


def run(ctx, func, items, chunksize=1):
    """items: list of (idx, case). Yields (idx, result)."""
    global _POOL
    nproc = max(1, ctx.nproc)
    if nproc == 1 or len(items) <= 1:
        if _MOD is not None and hasattr(_MOD, "worker_init") and not getattr(run, "_inited", False):
            _MOD.worker_init()
            run._inited = True
        for idx, case in items:
            yield _call((func, idx, case))
        return
    if _POOL is None:
        _POOL = mp.get_context("fork").Pool(nproc, initializer=_init_worker)
    # own chunking: Pool.imap_unordered(chunksize>1) returns a plain generator without next(timeout=)
    chunksize = max(1, int(chunksize))
    chunks = [[(func, i, c) for i, c in items[k : k + chunksize]] for k in range(0, len(items), chunksize)]
    it = _POOL.imap_unordered(_call_chunk, chunks, 1)
    limit = float(os.environ.get("VERIF_TASK_TIMEOUT", "3600"))
    for _ in range(len(chunks)):
        try:
            out = it.next(timeout=limit)
        except mp.TimeoutError:
            # a worker died (e.g. killed by the runtime) or hangs: machinery failure, never a verdict
            raise RuntimeError("no worker result within %.0f s: a worker process died or hangs" % limit)
        for idx, res in out:
            yield idx, res


def _call_chunk(chunk):
    return [_call(x) for x in chunk]


def shutdown():
    global _POOL
    if _POOL is not None:
        try:
            _POOL.terminate()
            _POOL.join()
        except Exception:
            pass
        _POOL = None
