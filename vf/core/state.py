"""Generic content digests of Python / numpy / xarray objects, and the
module-level state snapshot of every loaded ``uxarray.*`` module.

Nothing in here names a field of uxarray: grids are digested by walking
``__dict__`` and module state by walking ``sys.modules`` -- a patch that adds a
new cache attribute or hoists a buffer to module scope is automatically part of
the state that is compared.
"""

import hashlib
import sys
import types

import numpy as np


# --------------------------------------------------------------------------
# digests
# --------------------------------------------------------------------------

_MAXDEPTH = 12


def _h():
    return hashlib.sha1()


def _upd(h, *parts):
    for p in parts:
        if isinstance(p, str):
            p = p.encode()
        h.update(p)
        h.update(b"\x00")


def _arr(h, a):
    a = np.asarray(a)
    if a.dtype == object:
        _upd(h, "objarr", str(a.shape))
        for x in a.ravel().tolist():
            _digest_into(h, x, 0, set())
        return
    _upd(h, "nd", str(a.dtype), str(a.shape))
    if a.dtype.kind == "f":
        # normalise -0.0 and NaN payloads so that equal values hash equally
        a = np.where(np.isnan(a), np.nan, a + 0.0)
    h.update(np.ascontiguousarray(a).tobytes())


def _digest_into(h, obj, depth, seen):
    import xarray as xr

    if depth > _MAXDEPTH:
        _upd(h, "<deep>")
        return
    if obj is None or isinstance(obj, (bool, int, str, bytes)):
        _upd(h, type(obj).__name__, repr(obj))
        return
    if isinstance(obj, float):
        _upd(h, "float", repr(obj + 0.0))
        return
    if isinstance(obj, (np.generic,)):
        _arr(h, obj)
        return
    if isinstance(obj, np.ndarray):
        _arr(h, obj)
        return
    oid = id(obj)
    if oid in seen:
        _upd(h, "<cycle>")
        return
    seen = seen | {oid}
    if isinstance(obj, (list, tuple)):
        _upd(h, type(obj).__name__, str(len(obj)))
        for x in obj:
            _digest_into(h, x, depth + 1, seen)
        return
    if isinstance(obj, (set, frozenset)):
        _upd(h, "set", str(len(obj)))
        for d in sorted(digest(x) for x in obj):
            _upd(h, d)
        return
    if isinstance(obj, dict):
        _upd(h, "dict", str(len(obj)))
        items = [(digest(k), k, v) for k, v in obj.items()]
        for dk, k, v in sorted(items, key=lambda t: t[0]):
            _upd(h, dk)
            _digest_into(h, v, depth + 1, seen)
        return
    if isinstance(obj, xr.DataArray):
        _upd(h, "DataArray", type(obj).__name__, str(obj.name), str(tuple(obj.dims)))
        try:
            vals = np.asarray(obj.values)
        except Exception as e:  # pragma: no cover
            vals = np.array(repr(e))
        _arr(h, vals)
        _upd(h, "chunks", repr(getattr(obj, "chunks", None)))
        _digest_into(h, dict(obj.attrs), depth + 1, seen)
        for cn in sorted(map(str, obj.coords)):
            _upd(h, "coord", cn)
            _arr(h, np.asarray(obj.coords[cn].values))
        return
    if isinstance(obj, xr.Dataset):
        _upd(h, "Dataset", type(obj).__name__)
        for name in sorted(map(str, obj.variables)):
            v = obj.variables[name]
            _upd(h, "var", name, str(tuple(v.dims)))
            try:
                _arr(h, np.asarray(v.values))
            except Exception as e:  # pragma: no cover
                _upd(h, repr(e))
            _upd(h, "chunks", repr(getattr(v, "chunks", None)))
            _digest_into(h, dict(v.attrs), depth + 1, seen)
        _upd(h, "coords", ",".join(sorted(map(str, obj.coords))))
        _digest_into(h, dict(obj.attrs), depth + 1, seen)
        return
    tname = type(obj).__module__ + "." + type(obj).__qualname__
    # pandas / geopandas / spatialpandas frames and indexes
    if tname.startswith(("pandas.", "geopandas.", "spatialpandas.")):
        _upd(h, tname)
        _digest_frame(h, obj, depth, seen)
        return
    if tname.startswith("shapely."):
        _upd(h, tname, obj.wkb_hex if hasattr(obj, "wkb_hex") else repr(obj))
        return
    if tname.startswith("matplotlib.collections."):
        _upd(h, tname)
        if hasattr(obj, "get_paths"):
            for p in obj.get_paths():
                _arr(h, np.asarray(p.vertices))
        if hasattr(obj, "get_segments") and "Line" in tname:
            for s in obj.get_segments():
                _arr(h, np.asarray(s))
        arr = obj.get_array() if hasattr(obj, "get_array") else None
        if arr is not None:
            _arr(h, np.ma.filled(np.ma.asarray(arr).astype(float), np.nan))
        return
    if tname.startswith("sklearn."):
        # identity of a fitted tree: its training data + metric
        _upd(h, tname)
        try:
            _arr(h, np.asarray(obj.data))
        except Exception:
            pass
        for a in ("metric", "leaf_size"):
            if hasattr(obj, a):
                _upd(h, a, repr(getattr(obj, a)))
        if hasattr(obj, "dist_metric"):
            _upd(h, type(obj.dist_metric).__name__)
        return
    if tname.startswith("cartopy."):
        _upd(h, tname, repr(getattr(obj, "proj4_params", None)))
        return
    if tname.startswith("dask."):
        _upd(h, tname)
        try:
            _arr(h, np.asarray(obj))
        except Exception:
            pass
        return
    if isinstance(obj, (types.FunctionType, types.BuiltinFunctionType, types.MethodType, type, types.ModuleType)):
        _upd(h, "callable", getattr(obj, "__qualname__", repr(type(obj))))
        return
    d = getattr(obj, "__dict__", None)
    if d is not None:
        _upd(h, "obj", tname)
        _digest_into(h, {k: v for k, v in d.items()}, depth + 1, seen)
        return
    _upd(h, "opaque", tname)


def _digest_frame(h, obj, depth, seen):
    import pandas as pd

    if isinstance(obj, pd.DataFrame):
        _upd(h, "cols", ",".join(map(str, obj.columns)), str(len(obj)))
        for c in obj.columns:
            _digest_series(h, obj[c], depth, seen)
        return
    if isinstance(obj, pd.Series):
        _digest_series(h, obj, depth, seen)
        return
    if isinstance(obj, pd.Index):
        for x in obj.tolist():
            _digest_into(h, x, depth + 1, seen)
        return
    _upd(h, repr(obj))


def _digest_series(h, s, depth, seen):
    tname = type(s.dtype).__module__ + "." + type(s.dtype).__name__
    _upd(h, "series", str(s.name), tname, str(len(s)))
    if "spatialpandas" in tname:
        arr = s.values
        for i in range(len(arr)):
            g = arr[i]
            try:
                _digest_into(h, g.data.as_py() if hasattr(g.data, "as_py") else list(g.data), depth + 1, seen)
            except Exception:
                _upd(h, repr(g))
        return
    if "geopandas" in tname or "Geometry" in tname:
        for g in s.values:
            _upd(h, g.wkb_hex if g is not None else "None")
        return
    vals = s.values
    try:
        _arr(h, np.asarray(vals))
    except Exception:
        _upd(h, repr(vals))


def digest(obj):
    h = _h()
    _digest_into(h, obj, 0, set())
    return h.hexdigest()[:16]


# --------------------------------------------------------------------------
# module-level state of uxarray
# --------------------------------------------------------------------------

_CONTAINER = (dict, list, set, np.ndarray)
_SCALAR = (bool, int, float, str, type(None), np.generic)


_UXM = [0, None]


def _ux_modules():
    # re-scan only when modules were imported since the last call
    if _UXM[1] is None or _UXM[0] != len(sys.modules):
        _UXM[1] = sorted(
            (n, m)
            for n, m in list(sys.modules.items())
            if (n == "uxarray" or n.startswith("uxarray.")) and m is not None
        )
        _UXM[0] = len(sys.modules)
    return _UXM[1]


def _module_items(mod):
    for k, v in sorted(vars(mod).items()):
        if k.startswith("__"):
            continue
        if isinstance(v, (types.ModuleType, types.FunctionType, type)):
            continue
        if getattr(v, "__module__", None) and not isinstance(v, _CONTAINER + _SCALAR):
            # dispatcher objects, accessors, loggers ... not data
            continue
        yield k, v


class ModuleSnapshot:
    """Deep snapshot of every module-level container and scalar of ``uxarray.*``
    which can be *restored in place* (object identity and aliasing between
    containers are preserved) and digested."""

    def __init__(self):
        import copy

        self.entries = []  # (modname, key, original object, deep copy)
        self.scalars = []  # (modname, key, value)
        memo = {}
        for name, mod in _ux_modules():
            for k, v in _module_items(mod):
                if isinstance(v, _CONTAINER):
                    self.entries.append((name, k, v, copy.deepcopy(v, memo)))
                elif isinstance(v, _SCALAR):
                    self.scalars.append((name, k, v))
        self.n_objects = 0
        self.base_digest = self.digest()

    # -- in-place restore ---------------------------------------------------
    def _restore_obj(self, live, saved):
        self.n_objects += 1
        if isinstance(live, dict):
            for k in list(live.keys()):
                if k not in saved:
                    del live[k]
            for k, sv in saved.items():
                lv = live.get(k, None)
                if isinstance(sv, _CONTAINER) and type(lv) is type(sv) and k in live:
                    self._restore_obj(lv, sv)
                else:
                    import copy

                    if not (k in live and _same_scalar(lv, sv)):
                        live[k] = copy.deepcopy(sv)
        elif isinstance(live, list):
            import copy

            if len(live) == len(saved) and all(
                isinstance(s, _CONTAINER) and type(l) is type(s) for l, s in zip(live, saved)
            ):
                for l, s in zip(live, saved):
                    self._restore_obj(l, s)
            else:
                if not _same_scalar(live, saved):
                    live[:] = copy.deepcopy(saved)
        elif isinstance(live, set):
            if live != saved:
                live.clear()
                live.update(saved)
        elif isinstance(live, np.ndarray):
            if live.shape == saved.shape and live.dtype == saved.dtype:
                if live.flags.writeable:
                    live[...] = saved

    def restore(self):
        self.n_objects = 0
        for name, k, orig, saved in self.entries:
            mod = sys.modules.get(name)
            if mod is None:
                continue
            if vars(mod).get(k) is not orig:
                setattr(mod, k, orig)
            self._restore_obj(orig, saved)
        for name, k, v in self.scalars:
            mod = sys.modules.get(name)
            if mod is not None and not _same_scalar(vars(mod).get(k, _MISSING), v):
                setattr(mod, k, v)

    # -- digest ---------------------------------------------------------------
    def digest(self):
        h = _h()
        for name, mod in _ux_modules():
            for k, v in _module_items(mod):
                if isinstance(v, _CONTAINER) or isinstance(v, _SCALAR):
                    _upd(h, name, k)
                    _digest_into(h, v, 0, set())
        return h.hexdigest()[:16]

    def diff(self):
        """Names of module-level objects whose content differs from the snapshot."""
        out = []
        seen = set()
        for name, k, orig, saved in self.entries:
            mod = sys.modules.get(name)
            live = vars(mod).get(k, _MISSING) if mod else _MISSING
            seen.add((name, k))
            if live is _MISSING or digest(live) != digest(saved):
                out.append(f"{name}.{k}")
        for name, k, v in self.scalars:
            mod = sys.modules.get(name)
            live = vars(mod).get(k, _MISSING) if mod else _MISSING
            seen.add((name, k))
            if not _same_scalar(live, v):
                out.append(f"{name}.{k}")
        for name, mod in _ux_modules():
            for k, v in _module_items(mod):
                if (name, k) not in seen and isinstance(v, _CONTAINER + _SCALAR):
                    out.append(f"{name}.{k} (new)")
        return out


_MISSING = object()


def _same_scalar(a, b):
    try:
        if type(a) is not type(b):
            return False
        if isinstance(a, float) and a != a and b != b:
            return True
        r = a == b
        if isinstance(r, np.ndarray):
            return bool(r.all())
        return bool(r)
    except Exception:
        return False


def grid_digest(grid):
    """Digest of everything a Grid object holds (its dataset, attrs, caches)."""
    return digest(grid.__dict__)
