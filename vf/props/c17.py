"""C17 -- Topological aggregations reduce over exactly each element's nodes.

Explorer I: grids mixing face sizes x every face order (all permutations for
F<=5, transpositions+reversal above) x node data alphabet x leading dims x ten
reductions x two destinations, against a per-element numpy reduction.
"""

import itertools

import numpy as np

from vf.alpha import build, meshes
from vf.core import pool
from vf.core.state import digest

ID = "C17"
RULE = (
    "grids (sizes 3..8 mixed, row width exact and padded) x face order (all F! for F<=5 quick / F<=6 thorough, else "
    "transpositions+reversal) x node data {identity, generic, int, bool, every unit impulse} x leading dims {(), (2), (2,3), (n_node), (n_node+3)} x position of the node dimension {last, first, middle} "
    "x {mean,min,max,median,std,var,sum,prod,all,any} x {face, edge}; plus every unsupported (source kind, destination) pair; plus call histories: every sequence of 2 (quick) / 3 (thorough) calls over 14 (reduction, keyword arguments) variants incl. ddof=1 and dtype=float32, each judged with its own arguments. "
    "non-trivial = grid with >=2 face sizes (partitioning and padding matter); distinct = (mesh, face order, data, lead, reduction, destination)"
)
ASSUMPTIONS = [
    "grids built by Grid.from_topology from standard-form tables",
    "reference = numpy's reduction applied separately to each element's own corner values (float results compared at 1e-12)",
]
BOUNDS = {
    "quick": "8 meshes; all face orders for F<=5; impulses on meshes with <=13 nodes; lead dims (), (2), (2,3)",
    "thorough": "12 meshes; all face orders for F<=6; impulses everywhere; lead dims (), (2), (2,3), (1,2,2); padded width too",
}
AGGS = ["mean", "min", "max", "median", "std", "var", "sum", "prod", "all", "any"]
NPF = {"mean": np.mean, "min": np.min, "max": np.max, "median": np.median, "std": np.std, "var": np.var, "sum": np.sum, "prod": np.prod, "all": np.all, "any": np.any}
QUICK = ["mixedpatch", "sizes38", "pyr5", "prism", "cubesplit", "isolated", "tetra", "single3"]
THOROUGH = QUICK + ["pyr8", "polecap", "amstrip", "pyr7"]


def cases(tier):
    out = []
    full = 5 if tier == "quick" else 6
    for name in QUICK if tier == "quick" else THOROUGH:
        m = meshes.get(name)
        orders = list(meshes.face_orders(m.n_face, full_upto=full))
        nb = max(1, len(orders) // 40)
        step = (len(orders) + nb - 1) // nb
        for i0 in range(0, len(orders), step):
            out.append({"kind": "agg", "mesh": name, "orders": [i0, min(len(orders), i0 + step)], "full": full})
        out.append({"kind": "unsupported", "mesh": name})
    # call histories: every ordered pair (and, thorough, triple) of aggregation calls incl. non-default keyword arguments
    for name in (["mixedpatch"] if tier == "quick" else ["mixedpatch", "cubesplit", "sizes38"]):
        for first in range(len(_calls())):
            out.append({"kind": "calls", "mesh": name, "first": first, "depth": 2 if tier == "quick" else 3})
    return out


def _calls():
    """(reduction, keyword arguments) menu for the call-history search"""
    out = [(a, {}) for a in AGGS]
    out += [("std", {"ddof": 1}), ("var", {"ddof": 1}), ("sum", {"dtype": "float32"}), ("mean", {"dtype": "float32"})]
    return out


def _run_calls(case, res):
    """sequence of aggregation calls on one array; every call's result must be the per-element reduction with *its own* keyword arguments"""
    import itertools

    m = meshes.get(case["mesh"])
    C = _calls()
    mixed = len({len(f) for f in m.faces}) > 1
    data = build.lead_expand(dict(build.data_alphabet(m.n_node, ("generic",)))["generic"], (2,))
    for rest in itertools.product(range(len(C)), repeat=case["depth"] - 1):
        seq = (case["first"],) + rest
        if "only" in case and list(seq) != case["only"]["seq"]:
            continue
        for dest in ("face", "edge"):
            foc = {"seq": list(seq), "dest": dest}
            if "only" in case and foc != case["only"]:
                continue
            focus = dict(case, only=foc)
            pool.fresh()
            g = build.grid(m)
            da = build.uxda(g, data.copy(), "n_node", (2,), name="fld")
            elems = m.faces if dest == "face" else [tuple(r) for r in np.asarray(g.edge_node_connectivity.values).tolist()]
            res["evaluations"] += 1
            key = digest((case["mesh"], seq, dest))
            res["states"].append(key)
            if mixed and len({C[i] and (C[i][0], tuple(sorted(C[i][1].items()))) for i in seq}) > 1:
                res["nontrivial"].append(key)
            for step, ci in enumerate(seq):
                agg, kw = C[ci]
                res["transitions"] += 1
                try:
                    out = getattr(da, "topological_" + agg)(destination=dest, **kw)
                except Exception as e:
                    res["violations"].append({"oracle": "calls", "sig": "c17:calls:raises:%s(%s):%s" % (agg, ",".join(sorted(kw)), type(e).__name__), "msg": "call %d of %s raised %r" % (step, [C[i] for i in seq], e), "focus": focus})
                    break
                ref = np.empty(data.shape[:-1] + (len(elems),), dtype=float)
                for i, nodes in enumerate(elems):
                    ref[..., i] = NPF[agg](data[..., list(nodes)], axis=-1, **kw)
                v = np.asarray(out.values, dtype=float)
                tol = (1e-5 if kw.get("dtype") == "float32" else 1e-12) * max(1.0, float(np.max(np.abs(ref))))
                if v.shape != ref.shape or not np.all(np.abs(v - ref) <= tol):
                    res["violations"].append({"oracle": "calls", "sig": "c17:calls:value:%s(%s)%s" % (agg, ",".join(sorted(kw)), ":after-other-call" if step else ""), "msg": "grid %s, calls %s: result of call %d (%s %s -> %s) is not the per-element reduction with its own arguments (max deviation %s)" % (case["mesh"], [C[i] for i in seq], step, agg, kw, dest, float(np.max(np.abs(v - ref))) if v.shape == ref.shape else "shape"), "focus": focus})
                    break
            res["outcomes"].append(digest((seq[-1], dest)))
    res["axes"] = {"call_history_depth": {str(case["depth"]): res["evaluations"]}}
    res["sample"] = {"mesh": case["mesh"], "kind": "calls", "first": list(map(str, C[case["first"]]))}
    return res


def interp_cases(tier):
    """interpreted pass (NUMBA_DISABLE_JIT=1)"""
    return [{"kind": "agg", "mesh": "mixedpatch", "orders": [0, 2], "full": 5}, {"kind": "agg", "mesh": "sizes38", "orders": [0, 1], "full": 5}]


def selftest_case(tier):
    return {"kind": "agg", "mesh": "mixedpatch", "orders": [0, 2], "full": 5}


def warmup(tier):
    run_case({"kind": "agg", "mesh": "single3", "orders": [0, 1], "full": 5})
    run_case({"kind": "agg", "mesh": "isolated", "orders": [0, 1], "full": 5})


def _new():
    return {"violations": [], "evaluations": 0, "transitions": 0, "nontrivial": [], "outcomes": [], "axes": {}, "states": []}


def _ref(data, elems, fn):
    out = np.empty(data.shape[:-1] + (len(elems),), dtype=float)
    for i, nodes in enumerate(elems):
        out[..., i] = fn(data[..., list(nodes)], axis=-1)
    return out


def run_case(case):
    tier = case.get("tier", "quick")
    res = _new()
    base = meshes.get(case["mesh"])
    if case["kind"] == "unsupported":
        return _unsupported(case, base, res)
    if case["kind"] == "calls":
        return _run_calls(case, res)
    orders = list(meshes.face_orders(base.n_face, full_upto=case["full"]))
    i0, i1 = case["orders"]
    leads = [(), (2,), (2, 3)] + ([(1, 2, 2)] if case["full"] > 5 else [])
    widths = [None] + ([base.width + 1] if case["full"] > 5 else [])
    mixed = len({len(f) for f in base.faces}) > 1
    impulses = case["full"] > 5 or base.n_node <= 13
    last = None
    for oi in range(i0, i1):
        order = orders[oi]
        if "only" in case and list(order) != case["only"]["forder"]:
            continue
        m = base.reorder_faces(order)
        for width in widths:
            g = build.grid(m, width)
            edges = None
            kinds = ("identity", "generic", "int", "bool") + (("impulses",) if impulses and oi == i0 else ())
            # impulses with the first order of each block only (they probe node identity, not face order)
            for dname, dbase in build.data_alphabet(m.n_node, kinds):
                dleads = leads if not dname.startswith("impulse") else [()]
                if dname == "generic":
                    dleads = dleads + [(m.n_node,), (m.n_node + 3,)]  # a leading dimension as long as / longer than the node dimension
                for lead in dleads:
                    data = build.lead_expand(dbase, lead)
                    da0 = build.uxda(g, data, "n_node", lead, name="fld")
                    # where the node dimension sits among the dims: last (as built), first, in the middle
                    positions = ["last"]
                    if dname in ("generic", "identity") and len(lead) >= 1 and lead != (2,):
                        positions += ["first"] + (["middle"] if len(lead) == 2 else [])
                    for pos in positions:
                        nd = list(da0.dims)
                        if pos == "first":
                            nd = [nd[-1]] + nd[:-1]
                        elif pos == "middle":
                            nd = [nd[0], nd[-1]] + nd[1:-1]
                        da = da0 if pos == "last" else da0.transpose(*nd)
                        for agg in AGGS:
                            for dest in ("face", "edge"):
                                foc = {"forder": list(order), "width": width, "data": dname, "lead": list(lead), "agg": agg, "dest": dest}
                                if pos != "last":
                                    foc["node_dim"] = pos
                                if "only" in case and foc != case["only"]:
                                    continue
                                focus = dict(case, only=foc)
                                res["evaluations"] += 1
                                res["transitions"] += 1
                                try:
                                    out = getattr(da, "topological_" + agg)(destination=dest)
                                except Exception as e:
                                    res["violations"].append({"oracle": "agg", "sig": "c17:raises:%s:%s%s" % (dest, type(e).__name__, "" if pos == "last" else ":node-dim-" + pos), "msg": "topological_%s(%s) on %s data (dims %s) raised %r" % (agg, dest, dname, da.dims, e), "focus": focus})
                                    continue
                                if dest == "face":
                                    elems = m.faces
                                else:
                                    if edges is None:
                                        edges = [tuple(r) for r in np.asarray(g.edge_node_connectivity.values).tolist()]
                                    elems = edges
                                ref = _ref(data, elems, NPF[agg])
                                key = digest((case["mesh"], list(order), width, dname, list(lead), agg, dest, pos))
                                res["states"].append(key)
                                if mixed:
                                    res["nontrivial"].append(key)
                                _compare(out, ref, da, g, lead, dest, res, focus, agg, dname, pos)
                                last = foc
    res["axes"] = {"mesh": {case["mesh"]: res["evaluations"]}, "orders": {"%d" % len(orders): i1 - i0}}
    res["sample"] = {"mesh": case["mesh"], "last": last}
    return res


def _compare(out, ref, da, g, lead, dest, res, focus, agg, dname, pos="last"):
    import uxarray as ux

    V = res["violations"]
    std_dims = tuple(d for d in da.dims if d != "n_node") + ("n_" + dest,)
    want_dims = tuple(("n_" + dest) if d == "n_node" else d for d in da.dims)  # destination dimension in place of the node dimension
    if not isinstance(out, ux.UxDataArray):
        V.append({"oracle": "type", "sig": "c17:type:%s" % dest, "msg": "result is %s" % type(out).__name__, "focus": focus})
        return
    if tuple(out.dims) != want_dims:
        V.append({"oracle": "dims", "sig": "c17:dims:%s%s" % (dest, "" if pos == "last" else ":node-dim-" + pos), "msg": "dims %s, expected %s" % (out.dims, want_dims), "focus": focus})
        return
    if pos != "last":
        try:
            out = out.transpose(*std_dims)
        except Exception as e:
            V.append({"oracle": "dims", "sig": "c17:dims:%s:node-dim-%s" % (dest, pos), "msg": "result cannot be transposed to %s: %r" % (std_dims, e), "focus": focus})
            return
    if getattr(out, "uxgrid", None) is not g:
        V.append({"oracle": "grid", "sig": "c17:grid:%s" % dest, "msg": "result is not attached to the source grid", "focus": focus})
    vals = np.asarray(out.values)
    if vals.shape != ref.shape:
        V.append({"oracle": "value", "sig": "c17:shape:%s" % dest, "msg": "shape %s, expected %s" % (vals.shape, ref.shape), "focus": focus})
        return
    v = vals.astype(float)
    scale = max(1.0, float(np.max(np.abs(ref))) if ref.size else 1.0)
    bad = ~(np.abs(v - ref) <= 1e-12 * scale)
    if bad.any():
        idx = tuple(int(i) for i in np.argwhere(bad)[0])
        V.append({"oracle": "value", "sig": "c17:value:%s:%s" % (dest, agg), "msg": "topological_%s(%s) on %s data: element %s got %r, per-element reference %r (%d of %d differ)" % (agg, dest, dname, idx, v[idx], ref[idx], int(bad.sum()), bad.size), "focus": focus})
    res["outcomes"].append(digest(np.round(v, 9)))


def _unsupported(case, m, res):
    g = build.grid(m)
    n = {"n_node": m.n_node, "n_face": m.n_face, "n_edge": int(g.n_edge)}
    combos = []
    for elem in ("n_face", "n_edge"):
        for dest in ("face", "edge", "node", None):
            combos.append((elem, dest))
    for dest in ("node", None):
        combos.append(("n_node", dest))
    for elem, dest in combos:
        for agg in ("mean", "max", "all"):
            foc = {"elem": elem, "dest": dest, "agg": agg}
            if "only" in case and foc != case["only"]:
                continue
            focus = dict(case, only=foc)
            da = build.uxda(g, build.generic_field(n[elem]), elem)
            res["evaluations"] += 1
            res["transitions"] += 1
            key = digest((case["mesh"], elem, dest, agg))
            res["states"].append(key)
            res["nontrivial"].append(key)
            try:
                out = getattr(da, "topological_" + agg)(destination=dest)
            except Exception as e:
                res["outcomes"].append("raises:" + type(e).__name__)
                continue
            res["violations"].append({"oracle": "unsupported", "sig": "c17:unsupported-returns:%s->%s" % (elem, dest), "msg": "topological_%s(destination=%r) on %s-centred data returned %s instead of raising" % (agg, dest, elem, type(out).__name__), "focus": focus})
    res["axes"] = {"unsupported_on": {case["mesh"]: res["evaluations"]}}
    res["sample"] = {"mesh": case["mesh"], "kind": "unsupported"}
    return res


def run(ctx):
    ctx.map(run_case, cases(ctx.tier))
