"""C19 -- A grid shares no mutable state with its inputs, copies or exports.

Explorer H with aliasing monitors.
  inputs : every constructor x input container kind; the inputs are digested before construction, after it, and
           after every step of every history (depth <= d) of read-only operations on the new grid.
  copy   : g2 = g.copy(); every history (depth <= d) of public mutators / lazy derivations applied to one side;
           every observation of the *other* side must equal its value before the history.
  exports: every export x every caller edit (overwrite values in place, add / delete a variable or column, edit attrs,
           rename) followed by every observation of the grid, which must equal the fresh-grid value.
"""

import copy as _copy
import itertools

import numpy as np

from vf.alpha import build, events as E, meshes
from vf.core import pool
from vf.core.state import digest

ID = "C19"
RULE = (
    "inputs: constructors {from_topology (ndarray / list coords; fill & start_index dialects; optional tables and centres), from_face_vertices "
    "(list/tuple/ndarray), from_dataset and Grid(ds) on datasets with attrs (lon in 0..360 too), open_grid(dict), open_grid on harness-written MPAS / SCRIP / Exodus / ESMF / ICON datasets with attrs} x all histories of depth <= d over the read-only "
    "event alphabet, input digests compared after every step; copy: all histories of depth <= d over {construct_face_centers x2, normalize_cartesian_coordinates, "
    "chunk, 6 property setters, 8 lazy derivations} on either side, all 40 value observations of the other side compared; exports: {to_xarray x3, to_geodataframe x2, "
    "to_polycollection, to_linecollection, UxDataArray.to_geodataframe, UxDataArray.to_polycollection} x caller edits x all observations. non-trivial = an edit/mutation actually "
    "happened and an observation was compared; distinct = (kind, grid, history)"
)
ASSUMPTIONS = [
    "inputs are digested by content (arrays: dtype+shape+bytes; datasets: every variable, coordinate and attrs dictionary)",
    "a lazy derivation on one side of a copy may not change any *value* the other side reports (inventory listings are not compared for the copy clause)",
    "observations after editing an export are compared with the same observation on a freshly built grid",
]
BOUNDS = {
    "quick": "inputs: depth 1 over 45 events x 11 constructors x 2 meshes; copy: depth 2 over 18 mutators, both sides, 2 meshes; exports: 9 exports x up to 5 edits x 40 observations x 2 meshes",
    "thorough": "inputs: depth 2; copy: depth 3 on one mesh, depth 2 on 3; exports on 4 meshes",
}

ALL_EVENTS = E.build_events("lean")
VALUE_EVENTS = [k for k, (kind, f) in ALL_EVENTS.items() if kind == "value" and not k.startswith(("chunk", "isel", "bbox", "bcircle", "nn(", "dual", "copy", "xsec", "ball(", "kd(", "gdf(", "poly(", "line(", "validate", "getitem", "attr:node_node", "attr:edge_edge", "attr:node_edge"))]
READ_EVENTS = [k for k in ALL_EVENTS if not k.startswith(("inv:", "attr:node_node", "attr:edge_edge", "attr:node_edge", "getitem"))]
INPUT_EVENTS = [k for k in READ_EVENTS if k.startswith(("attr:", "areas", "to_xarray", "chunk", "isel(n_face=[0])", "dual", "copy", "gdf(exclude,spatialpandas,None)", "poly(exclude,None)", "line(exclude,None)", "ball(nodes,spherical)", "kd(nodes,cartesian)", "xsec"))]


# --------------------------------------------------------------------------- inputs
def _ugrid_ds(m, lon360=False, with_attrs=True):
    import xarray as xr

    lon, lat = m.lonlat()
    if lon360:
        lon = lon % 360.0
    ds = xr.Dataset(
        {
            "Mesh2": ((), np.int32(0), {"cf_role": "mesh_topology", "topology_dimension": 2, "node_coordinates": "Mesh2_node_x Mesh2_node_y", "face_node_connectivity": "Mesh2_face_nodes", "face_dimension": "nMesh2_face"}),
            "Mesh2_node_x": (("nMesh2_node",), lon.copy(), {"standard_name": "longitude", "units": "degrees_east"}),
            "Mesh2_node_y": (("nMesh2_node",), lat.copy(), {"standard_name": "latitude", "units": "degrees_north"}),
            "Mesh2_face_nodes": (("nMesh2_face", "nMaxMesh2_face_nodes"), m.table(fill=-1, dtype=np.int32) + 1, {"cf_role": "face_node_connectivity", "_FillValue": np.int32(0), "start_index": np.int32(1)}),
        }
    )
    # fill was -1 -> 0 after +1; keep it as declared fill 0
    if with_attrs:
        ds.attrs = {"title": "harness", "history": ["a", "b"], "nested": "x"}
    return ds


def _ugrid_ds64(m):
    ds = _ugrid_ds(m)
    t = m.table(fill=-1, dtype=np.int64)
    t = np.where(t == -1, -1, t + 1)
    ds["Mesh2_face_nodes"] = (("nMesh2_face", "nMaxMesh2_face_nodes"), t, {"cf_role": "face_node_connectivity", "_FillValue": np.int64(-1), "start_index": np.int64(1)})
    return ds


def _std_ds(m, lon360=False):
    import xarray as xr

    lon, lat = m.lonlat()
    if lon360:
        lon = lon % 360.0
    return xr.Dataset(
        {
            "node_lon": (("n_node",), lon.copy(), {"units": "degrees_east"}),
            "node_lat": (("n_node",), lat.copy(), {"units": "degrees_north"}),
            "face_node_connectivity": (("n_face", "n_max_face_nodes"), m.table(), {"cf_role": "face_node_connectivity", "_FillValue": build.FILL, "start_index": 0}),
        },
        attrs={"title": "std"},
    )


def constructors(m):
    """name -> (inputs dict, build(inputs) -> Grid)"""
    import uxarray as ux

    lon, lat = m.lonlat()
    P = np.array(m.points)
    g0 = build.grid(m)
    en = np.asarray(g0.edge_node_connectivity.values).copy()
    flon, flat = np.asarray(g0.face_lon.values).copy(), np.asarray(g0.face_lat.values).copy()
    verts = [[[float(a), float(b)] for a, b in zip(*_ll(m, f))] for f in m.faces]
    uniform = len({len(f) for f in m.faces}) == 1
    out = {}
    out["from_topology(ndarray)"] = ({"lon": lon.copy(), "lat": lat.copy(), "conn": m.table()}, lambda i: ux.Grid.from_topology(i["lon"], i["lat"], i["conn"], fill_value=build.FILL))
    out["from_topology(fill=-1,start=1)"] = ({"lon": lon.copy(), "lat": lat.copy(), "conn": np.where(m.table() == build.FILL, -1, m.table() + 1)}, lambda i: ux.Grid.from_topology(i["lon"], i["lat"], i["conn"], fill_value=-1, start_index=1))
    out["from_topology(int32,fill=999)"] = ({"lon": lon.copy(), "lat": lat.copy(), "conn": m.table(fill=999, dtype=np.int32)}, lambda i: ux.Grid.from_topology(i["lon"], i["lat"], i["conn"], fill_value=999))
    out["from_topology(lists)"] = ({"lon": lon.tolist(), "lat": lat.tolist(), "conn": m.table()}, lambda i: ux.Grid.from_topology(i["lon"], i["lat"], i["conn"], fill_value=build.FILL))
    out["from_topology(lon360)"] = ({"lon": lon % 360.0, "lat": lat.copy(), "conn": m.table()}, lambda i: ux.Grid.from_topology(i["lon"], i["lat"], i["conn"], fill_value=build.FILL))
    out["from_topology(+edges,+centres,+xyz)"] = (
        {"lon": lon.copy(), "lat": lat.copy(), "conn": m.table(), "en": en + 1, "flon": flon, "flat": flat, "x": P[:, 0].copy() * 3.0, "y": P[:, 1].copy() * 3.0, "z": P[:, 2].copy() * 3.0},
        lambda i: ux.Grid.from_topology(i["lon"], i["lat"], np.where(i["conn"] == build.FILL, build.FILL, i["conn"]), fill_value=build.FILL, edge_node_connectivity=i["en"] - 1, face_lon=i["flon"], face_lat=i["flat"], node_x=i["x"], node_y=i["y"], node_z=i["z"]),
    )
    out["open_grid(dict,start=1)"] = ({"d": {"node_lon": lon.copy(), "node_lat": lat.copy(), "face_node_connectivity": np.where(m.table() == build.FILL, -1, m.table() + 1), "fill_value": -1, "start_index": 1}}, lambda i: ux.open_grid(i["d"]))
    if uniform:
        out["from_face_vertices(list)"] = ({"v": verts}, lambda i: ux.Grid.from_face_vertices(i["v"], latlon=True))
        out["from_face_vertices(tuple)"] = ({"v": tuple(tuple(tuple(p) for p in f) for f in verts)}, lambda i: ux.Grid.from_face_vertices(i["v"], latlon=True))
        out["from_face_vertices(ndarray)"] = ({"v": np.array(verts)}, lambda i: ux.Grid.from_face_vertices(i["v"], latlon=True))
    out["from_dataset(ugrid,start=1,int32)"] = ({"ds": _ugrid_ds(m)}, lambda i: ux.Grid.from_dataset(i["ds"]))
    out["from_dataset(ugrid,start=1,int64,fill=-1)"] = ({"ds": _ugrid_ds64(m)}, lambda i: ux.Grid.from_dataset(i["ds"]))
    out["open_grid(ugrid ds,lon360)"] = ({"ds": _ugrid_ds(m, lon360=True)}, lambda i: ux.open_grid(i["ds"]))
    out["from_dataset(std,spec)"] = ({"ds": _std_ds(m)}, lambda i: ux.Grid.from_dataset(i["ds"], source_grid_spec="UGRID"))
    out["Grid(ds,lon360)"] = ({"ds": _std_ds(m, lon360=True)}, lambda i: ux.Grid(i["ds"], source_grid_spec="UGRID"))
    # sources of the other readers, written by the harness (vf.alpha.dialects), with attribute dictionaries
    from vf.alpha import dialects as D

    def _with_attrs(r):
        if r is None:
            return None
        ds = r[0]
        ds.attrs = dict(ds.attrs, history=["created", "by harness"], nested_like="a=1;b=2")
        return ds

    for nm, mk in (
        ("open_grid(mpas)", lambda: _with_attrs(D.mpas(m, optional="all"))),
        ("open_grid(mpas,junk padding)", lambda: _with_attrs(D.mpas(m, optional="all", padding="junk"))),
        ("open_grid(scrip)", lambda: _with_attrs(D.scrip(m))),
        ("open_grid(exodus)", lambda: _with_attrs(D.exodus(m))),
        ("open_grid(esmf,junk padding)", lambda: _with_attrs(D.esmf(m, padding="junk", dtype="int64"))),
        ("open_grid(icon)", lambda: _with_attrs(D.icon(m))),
        # index tables already in the library's own integer width (numpy's default for in-memory sources): a reader that converts
        # with copy=False / asarray and then shifts in place writes into the caller's arrays only for these
        ("open_grid(mpas,int64)", lambda: _with_attrs(D.mpas(m, optional="all", dtype="int64"))),
        ("open_grid(mpas,int64,repeat-last)", lambda: _with_attrs(D.mpas(m, optional="all", padding="repeat-last", dtype="int64"))),
        ("open_grid(exodus,int64)", lambda: _with_attrs(D.exodus(m, dtype="int64"))),
        ("open_grid(icon,int64)", lambda: _with_attrs(D.icon(m, dtype="int64"))),
    ):
        dsrc = mk()
        if dsrc is not None:
            out[nm] = ({"ds": dsrc}, lambda i: ux.open_grid(i["ds"]))
    return out


def _ll(m, f):
    lon, lat = m.lonlat()
    return lon[list(f)], lat[list(f)]


def _run_inputs(case, res):
    V = res["violations"]
    m = meshes.get(case["mesh"])
    depth = case["depth"]
    names = list(constructors(m))
    cname = case["ctor"]
    if cname not in names:
        return res
    hists = [()]
    for d in range(1, depth + 1):
        hists += list(itertools.product(INPUT_EVENTS, repeat=d))
    # only maximal histories need to be executed (inputs are re-digested after every step)
    hists = [h for h in hists if len(h) == depth] if depth else [()]
    if "block" in case:
        hists = hists[case["block"][0]: case["block"][1]]
    for h in hists:
        if "only" in case and list(h) != case["only"]:
            continue
        pool.fresh()
        inputs, mk = constructors(m)[cname]
        before = {k: digest(v) for k, v in inputs.items()}
        focus = dict(case, only=list(h))
        focus.pop("block", None)
        try:
            g = mk(inputs)
        except Exception as e:
            V.append({"oracle": "construct", "sig": "c19:inputs:%s:construct-raises:%s" % (cname, type(e).__name__), "msg": "%s raised %r" % (cname, e), "focus": focus})
            res["evaluations"] += 1
            continue
        res["evaluations"] += 1
        res["transitions"] += 1
        changed = [k for k, v in inputs.items() if digest(v) != before[k]]
        if changed:
            V.append({"oracle": "inputs", "sig": "c19:inputs:%s:modified-by-construction:%s" % (cname, "+".join(changed)), "msg": "constructing with %s modified its input(s) %s" % (cname, changed), "focus": focus})
            before = {k: digest(v) for k, v in inputs.items()}
        for step, en in enumerate(h):
            try:
                ALL_EVENTS[en][1](g)
            except Exception:
                pass
            res["transitions"] += 1
            changed = [k for k, v in inputs.items() if digest(v) != before[k]]
            if changed:
                V.append({"oracle": "inputs", "sig": "c19:inputs:%s:modified-later:%s" % (cname, "+".join(changed)), "msg": "after %s, history %s modified the constructor input(s) %s" % (cname, list(h[: step + 1]), changed), "focus": focus})
                before = {k: digest(v) for k, v in inputs.items()}
        key = digest(("inputs", case["mesh"], cname, h))
        res["states"].append(key)
        res["nontrivial"].append(key)
        res["outcomes"].append(digest(sorted(before.items())))
    res["axes"] = {"inputs_ctor": {cname: res["evaluations"]}}
    res["sample"] = {"kind": "inputs", "ctor": cname, "mesh": case["mesh"], "depth": depth}
    return res


# --------------------------------------------------------------------------- copy
def _mutators():
    import xarray as xr

    def setter(name, f):
        def mut(g):
            cur = getattr(g, name)
            setattr(g, name, xr.DataArray(f(np.asarray(cur.values)), dims=cur.dims, attrs=dict(cur.attrs)))

        return mut

    M = {
        "construct_face_centers(cartesian average)": lambda g: g.construct_face_centers("cartesian average"),
        "construct_face_centers(welzl)": lambda g: g.construct_face_centers("welzl"),
        "normalize_cartesian_coordinates": lambda g: g.normalize_cartesian_coordinates(),
        "chunk": lambda g: g.chunk(),
        "set:node_lon": setter("node_lon", lambda a: a + 1.0),
        "set:node_lat": setter("node_lat", lambda a: a * 0.5),
        "set:face_node_connectivity": setter("face_node_connectivity", lambda a: a[::-1].copy()),
        "set:node_x": setter("node_x", lambda a: a * 2.0),
        "set:face_lon": setter("face_lon", lambda a: a + 3.0),
        "set:face_areas": setter("face_areas", lambda a: a * 0.0 + 1.0),
    }
    for a in ("edge_node_connectivity", "face_edge_connectivity", "node_x", "face_lon", "edge_lon", "face_areas", "bounds", "node_face_connectivity"):
        M["derive:" + a] = lambda g, a=a: getattr(g, a)
    # exports fill caches on the Grid object (or, wrongly, somewhere shared): the other side's exports must not see them
    M["derive:to_linecollection"] = lambda g: g.to_linecollection()
    M["derive:to_polycollection"] = lambda g: g.to_polycollection()
    M["derive:to_geodataframe"] = lambda g: g.to_geodataframe()
    return M


GEOM_EVENTS = [k for k in ("gdf(exclude,spatialpandas,None)", "poly(exclude,None)", "line(exclude,None)") if k in ALL_EVENTS]


def _observe(g):
    out = {}
    for en in VALUE_EVENTS + GEOM_EVENTS:
        try:
            out[en] = ("ok", ALL_EVENTS[en][1](g))
        except Exception as e:
            out[en] = ("exc", type(e).__name__)
    return out


def _same_obs(a, b):
    bad = []
    for en in a:
        x, y = a[en], b[en]
        if x[0] != y[0]:
            bad.append("%s: %s -> %s" % (en, x[0] if x[0] == "ok" else x[1], y[0] if y[0] == "ok" else y[1]))
        elif x[0] == "exc":
            if x[1] != y[1]:
                bad.append("%s: raises %s -> %s" % (en, x[1], y[1]))
        else:
            d = E.same(x[1], y[1], 1e-12)
            if d:
                bad.append("%s: %s" % (en, d[0]))
    return bad


def _run_copy(case, res):
    V = res["violations"]
    m = meshes.get(case["mesh"])
    M = _mutators()
    names = list(M)
    depth = case["depth"]
    first = case["first"]
    hists = [(first,) + rest for rest in itertools.product(names, repeat=depth - 1)]
    refs = {}
    for h in hists:
        for side in ("original", "copy"):
            for xyz in (False, True):
                foc = {"hist": list(h), "side": side, "xyz": xyz}
                if "only" in case and foc != case["only"]:
                    continue
                focus = dict(case, only=foc)
                # reference: what an untouched grid of the same kind reports -- observed on a separate fresh object in its OWN execution
                # (module state restored afterwards), so that observing neither materialises variables on the pair under test nor
                # pre-fills anything shared that the pair might wrongly read
                if xyz not in refs:
                    pool.fresh()
                    refs[xyz] = _observe(_grid_xyz(m) if xyz else build.grid(m))
                ref = refs[xyz]
                pool.fresh()
                g = _grid_xyz(m) if xyz else build.grid(m)
                g2 = g.copy()
                tgt, other = (g, g2) if side == "original" else (g2, g)
                applied = []
                for mn in h:
                    try:
                        M[mn](tgt)
                        applied.append(mn)
                    except Exception:
                        applied.append(mn + "(raised)")
                res["evaluations"] += 1
                res["transitions"] += len(h) + len(VALUE_EVENTS)
                after = _observe(other)
                bad = _same_obs(ref, after)
                key = digest(("copy", case["mesh"], h, side, xyz))
                res["states"].append(key)
                res["nontrivial"].append(key)
                res["outcomes"].append(digest(bad))
                if bad:
                    real = [x for x in h if not x.startswith("derive:")]
                    V.append({"oracle": "copy", "sig": "c19:copy:%s-changed-by:%s" % ("copy" if side == "original" else "original", (real or list(h))[0].split("(")[0]), "msg": "g2=g.copy(); %s on the %s changed what the other side reports: %s" % (applied, side, "; ".join(bad[:4])), "focus": focus})
    res["axes"] = {"copy_first": {first: res["evaluations"]}}
    res["sample"] = {"kind": "copy", "mesh": case["mesh"], "first": first, "depth": depth}
    return res


def _grid_xyz(m):
    import uxarray as ux

    lon, lat = m.lonlat()
    P = np.array(m.points) * 2.5
    return ux.Grid.from_topology(lon.copy(), lat.copy(), m.table(), fill_value=build.FILL, node_x=P[:, 0].copy(), node_y=P[:, 1].copy(), node_z=P[:, 2].copy())


# --------------------------------------------------------------------------- exports
def _exports():
    def data(g):
        return build.uxda(g, np.arange(g.n_face, dtype=float), "n_face", name="fld")

    X = {
        "to_xarray(ugrid)": lambda g: g.to_xarray("ugrid"),
        "to_xarray(exodus)": lambda g: g.to_xarray("exodus"),
        "to_xarray(scrip)": lambda g: g.to_xarray("scrip"),
        "to_geodataframe(spatialpandas)": lambda g: g.to_geodataframe(engine="spatialpandas"),
        "to_geodataframe(geopandas)": lambda g: g.to_geodataframe(engine="geopandas"),
        "to_polycollection": lambda g: g.to_polycollection(),
        "to_linecollection": lambda g: g.to_linecollection(),
        "uxda.to_geodataframe": lambda g: data(g).to_geodataframe(),
        "uxda.to_polycollection": lambda g: data(g).to_polycollection(),
        # second and third calls are served from the grid's caches
        "to_polycollection(return_indices) x2": lambda g: (g.to_polycollection(return_indices=True), g.to_polycollection(return_indices=True))[1][0],
        "to_polycollection x3": lambda g: (g.to_polycollection(), g.to_polycollection(), g.to_polycollection())[2],
        "to_linecollection x2": lambda g: (g.to_linecollection(), g.to_linecollection())[1],
        "to_xarray(ugrid) x2": lambda g: (g.to_xarray("ugrid"), g.to_xarray("ugrid"))[1],
        "uxda.to_polycollection x2": lambda g: (data(g).to_polycollection(), data(g).to_polycollection())[1],
        "uxda.to_geodataframe x2": lambda g: (data(g).to_geodataframe(), data(g).to_geodataframe())[1],
    }
    return X


def _edits(obj):
    """name -> fn(obj) performing one caller-side edit (only those applicable to the object's type)"""
    import xarray as xr

    ed = {}
    if isinstance(obj, xr.Dataset):
        def overwrite(o):
            for v in o.variables:
                a = o[v].values
                if a.dtype.kind in "fi" and a.size and a.flags.writeable:
                    try:
                        a[...] = a * 0 + 7
                    except Exception:
                        pass

        ed["overwrite-values-in-place"] = overwrite
        ed["add-variable"] = lambda o: o.__setitem__("zz_new", xr.DataArray(np.arange(3), dims=["zz"]))
        ed["delete-variables"] = lambda o: [o.__delitem__(v) for v in list(o.data_vars)[:2]]
        ed["edit-attrs"] = lambda o: ([o[v].attrs.update({"edited": 1}) for v in o.variables], [o[v].attrs.clear() for v in list(o.variables)[:1]], o.attrs.update({"x": 1}))
    elif isinstance(obj, xr.DataArray):
        def overwrite(o):
            a = o.values
            if a.flags.writeable:
                a[...] = a * 0 + 5

        ed["overwrite-values-in-place"] = overwrite
        ed["edit-attrs"] = lambda o: (o.attrs.update({"edited": 1}), o.attrs.pop("_FillValue", None))
    elif hasattr(obj, "columns"):
        ed["add-column"] = lambda o: o.__setitem__("zz_new", np.arange(len(o)))
        ed["drop-rows-in-place"] = lambda o: o.drop(o.index[:1], inplace=True)
        ed["rename-columns-in-place"] = lambda o: o.rename(columns={"geometry": "geom2"}, inplace=True)
    else:  # matplotlib collection
        ed["set_array"] = lambda o: o.set_array(np.full(len(o.get_paths()) if hasattr(o, "get_paths") else 1, 3.0))
        ed["set_verts/segments"] = lambda o: (o.set_verts([np.zeros((3, 2))]) if hasattr(o, "set_verts") else o.set_segments([np.zeros((2, 2))]))
    return ed


EXPORT_OBS = ["to_xarray(ugrid)", "gdf(exclude,spatialpandas,None)", "gdf(exclude,geopandas,None)", "poly(exclude,None)", "line(exclude,None)", "to_xarray(scrip)", "to_xarray(exodus)"]


def _run_exports(case, res):
    V = res["violations"]
    m = meshes.get(case["mesh"])
    X = _exports()
    xn = case["export"]
    pool.fresh()
    obs_names = VALUE_EVENTS + [e for e in EXPORT_OBS if e not in VALUE_EVENTS]
    probe = X[xn](build.grid(m))
    for edit_name in _edits(probe):
        if "only" in case and edit_name != case["only"]:
            continue
        focus = dict(case, only=edit_name)
        res["evaluations"] += 1
        bad = []
        edit_failed = None
        for en in obs_names:
            # fresh pair for every observation: (export, edit, observe) vs (export, observe)
            pool.fresh()
            g = build.grid(m)
            try:
                obj = X[xn](g)
                _edits(obj)[edit_name](obj)
            except Exception as e:
                edit_failed = type(e).__name__
                break
            try:
                got = ("ok", ALL_EVENTS[en][1](g))
            except Exception as e:
                got = ("exc", type(e).__name__)
            pool.fresh()
            gr = build.grid(m)
            try:
                X[xn](gr)  # same export, no edit
                want = ("ok", ALL_EVENTS[en][1](gr))
            except Exception as e:
                want = ("exc", type(e).__name__)
            res["transitions"] += 1
            bad += _same_obs({en: want}, {en: got})
        if edit_failed:
            res["outcomes"].append("edit-raises:" + edit_failed)
            continue
        key = digest(("exports", case["mesh"], xn, edit_name))
        res["states"].append(key)
        res["nontrivial"].append(key)
        res["outcomes"].append(digest(bad))
        if bad:
            V.append({"oracle": "exports", "sig": "c19:export:%s:%s" % (xn, edit_name), "msg": "x = grid.%s; caller edit '%s' on x changed what the grid reports: %s" % (xn, edit_name, "; ".join(bad[:4])), "focus": focus})
    res["axes"] = {"export": {xn: res["evaluations"]}}
    res["sample"] = {"kind": "exports", "mesh": case["mesh"], "export": xn}
    return res


# --------------------------------------------------------------------------- plumbing
def cases(tier):
    out = []
    quick = tier == "quick"
    # octa: all-triangle mesh (the only kind the ICON writer can express)
    for mesh in (["mixedpatch", "cube", "octa"] if quick else ["mixedpatch", "cube", "octa", "amstrip", "tetra"]):
        d = 1 if quick else 2
        for c in ["from_topology(ndarray)", "from_topology(fill=-1,start=1)", "from_topology(int32,fill=999)", "from_topology(lists)", "from_topology(lon360)", "from_topology(+edges,+centres,+xyz)", "open_grid(dict,start=1)", "from_face_vertices(list)", "from_face_vertices(tuple)", "from_face_vertices(ndarray)", "from_dataset(ugrid,start=1,int32)", "from_dataset(ugrid,start=1,int64,fill=-1)", "open_grid(ugrid ds,lon360)", "from_dataset(std,spec)", "Grid(ds,lon360)", "open_grid(mpas)", "open_grid(mpas,junk padding)", "open_grid(scrip)", "open_grid(exodus)", "open_grid(esmf,junk padding)", "open_grid(icon)", "open_grid(mpas,int64)", "open_grid(mpas,int64,repeat-last)", "open_grid(exodus,int64)", "open_grid(icon,int64)"]:
            n = len(INPUT_EVENTS) ** d
            if d == 1:
                out.append({"kind": "inputs", "mesh": mesh, "ctor": c, "depth": d})
            else:
                step = 400
                for i0 in range(0, n, step):
                    out.append({"kind": "inputs", "mesh": mesh, "ctor": c, "depth": d, "block": [i0, min(n, i0 + step)]})
        if mesh == "octa":
            continue  # inputs only
        for x in _export_names():
            out.append({"kind": "exports", "mesh": mesh, "export": x})
    M = list(_mutator_names())
    for mesh, depth in ([("mixedpatch", 2), ("cube", 2)] if quick else [("mixedpatch", 3), ("cube", 2), ("amstrip", 2), ("tetra", 2)]):
        for first in M:
            out.append({"kind": "copy", "mesh": mesh, "first": first, "depth": depth})
    return out


def _export_names():
    return ["to_xarray(ugrid)", "to_xarray(exodus)", "to_xarray(scrip)", "to_geodataframe(spatialpandas)", "to_geodataframe(geopandas)", "to_polycollection", "to_linecollection", "uxda.to_geodataframe", "uxda.to_polycollection", "to_polycollection(return_indices) x2", "to_polycollection x3", "to_linecollection x2", "to_xarray(ugrid) x2", "uxda.to_polycollection x2", "uxda.to_geodataframe x2"]


def _mutator_names():
    return list(_mutators())



def selftest_case(tier):
    return {"kind": "inputs", "mesh": "cube", "ctor": "from_topology(ndarray)", "depth": 1}


def warmup(tier):
    run_case({"kind": "inputs", "mesh": "mixedpatch", "ctor": "from_topology(ndarray)", "depth": 1})
    run_case({"kind": "copy", "mesh": "cube", "first": "construct_face_centers(welzl)", "depth": 1})
    run_case({"kind": "exports", "mesh": "cube", "export": "uxda.to_geodataframe"})


def _new():
    return {"violations": [], "evaluations": 0, "transitions": 0, "nontrivial": [], "outcomes": [], "axes": {}, "states": []}


def run_case(case):
    res = _new()
    if case["kind"] == "inputs":
        return _run_inputs(case, res)
    if case["kind"] == "copy":
        return _run_copy(case, res)
    return _run_exports(case, res)


def run(ctx):
    ctx.map(run_case, cases(ctx.tier))
