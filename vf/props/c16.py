"""C16 -- Edge distances, differences and gradients follow the edge's own neighbours.

Explorer I: grids under numbering deviations x {derived | source-supplied
centres | source-supplied distances} x data alphabet on faces and nodes x
leading dims x normalize, against an independent geodesic computation.
"""

import numpy as np

from vf.alpha import build, meshes
from vf.core.state import digest
from vf.oracle import conn, sph

ID = "C16"
RULE = (
    "grids (boundary edges, closed, n_face<>n_node, antimeridian, pole, kilometre-scale cells) under every single index deviation (node relabelling, face order, "
    "start corner) x provenance {derived centres, face centres supplied by the source (displaced from the corner mean), distances supplied by "
    "the source, an MPAS source (harness-written) shipping dvEdge/dcEdge, its own edge order and cell centres, the same MPAS source without dvEdge/dcEdge (distances derived from positions in metres)} x data {every unit impulse, identity, generic, ones(constant), int} on faces and on nodes x leading dims {(), (2), (2,3)} x "
    "normalize {False, True}. non-trivial = grid with both interior and boundary edges or closed grid with >= 6 faces; distinct = (mesh, deviation, provenance)"
)
ASSUMPTIONS = [
    "edge membership (edge->nodes, edge->faces) is read from the grid's own tables, whose correctness is C02/C03's job",
    "face centres are 'as the grid reports them' (face_lon/face_lat of a fresh grid built the same way; C04 owns their correctness)",
    "great-circle distance reference: atan2(|a x b|, a.b); tolerance 1e-9 rad absolute (the implementation's arccos form has a relative error of ~1e-8 on the 0.002-degree cells of the kilometre-scale meshes, far inside that); gradients are judged as difference / the grid's own reported distance at 1e-9 relative, so that the admitted distance error is not amplified; meshes with element spacings below ~1e-6 rad (the lon/lat patch next to the pole has cells 7 cm wide) are not used here: arccos resolves a distance d only to ~1e-16/d rad, which exceeds the 1e-9 rad tolerance there",
    "normalised gradient: every leading-index slice has unit L2 norm (slices with identically zero gradient are not generated)",
]
BOUNDS = {
    "quick": "9 meshes, deviations <= 1 (relabel cap 12 per mesh; 4 for MPAS-read grids), 5 provenance cases",
    "thorough": "14 meshes, all single deviations, 5 provenance cases",
}
QUICK = ["mixedpatch", "cube", "tetra", "icosa", "pyr5", "amstrip", "polefan", "isolated", "finequads-am"]
THOROUGH = QUICK + ["polecap", "cs2", "prism", "cubesplit", "finequads"]
LEADS = [(), (2,), (2, 3)]
TOL = 1e-9


def cases(tier):
    out = []
    for name in QUICK if tier == "quick" else THOROUGH:
        for prov in ("derived", "centres", "distances", "mpas", "mpas-nodist"):
            out.append({"mesh": name, "prov": prov, "cap": (12 if not prov.startswith("mpas") else 4) if tier == "quick" else None})
    return out


def interp_cases(tier):
    """interpreted pass (NUMBA_DISABLE_JIT=1)"""
    return [{"mesh": "mixedpatch", "prov": "derived", "cap": 2}, {"mesh": "amstrip", "prov": "centres", "cap": 2}, {"mesh": "pyr5", "prov": "mpas-nodist", "cap": 1}]


def selftest_case(tier):
    return {"mesh": "mixedpatch", "prov": "derived", "cap": 3}


def warmup(tier):
    for p in ("derived", "centres", "distances", "mpas", "mpas-nodist"):
        run_case({"mesh": "single3", "prov": p, "cap": 2})
        run_case({"mesh": "isolated", "prov": p, "cap": 2})


def _new():
    return {"violations": [], "evaluations": 0, "transitions": 0, "nontrivial": [], "outcomes": [], "axes": {}, "states": []}


def _mk(m, prov):
    """grid + what the source supplied"""
    import uxarray as ux
    import xarray as xr

    lon, lat = m.lonlat()
    sup = {}
    if prov == "derived":
        return build.grid(m), sup
    if prov == "centres":
        # centres displaced from the corner mean towards the first corner (still inside the face)
        P = np.array(m.points)
        c = np.array([sph.unit(0.6 * sph.unit(P[list(f)].mean(axis=0)) + 0.4 * P[f[0]]) for f in m.faces])
        flon, flat = sph.xyz2ll(c)
        sup["face_lon"], sup["face_lat"] = flon, flat
        g = ux.Grid.from_topology(lon.copy(), lat.copy(), m.table(), fill_value=build.FILL, face_lon=flon.copy(), face_lat=flat.copy())
        return g, sup
    if prov == "mpas":
        # MPAS source written by the harness: ships dvEdge / dcEdge (metres on the MPAS sphere), its own edge order and cell centres
        from vf.alpha import dialects as D

        ds, exp = D.mpas(m, optional="all")
        sup["edge_node_distances"] = np.asarray(ds["dvEdge"].values, dtype=float).copy()
        sup["edge_face_distances"] = np.asarray(ds["dcEdge"].values, dtype=float).copy()
        return ux.open_grid(ds), sup
    if prov == "mpas-nodist":
        # MPAS source (coordinates in metres, its own edge order and cell centres) that does NOT ship dvEdge / dcEdge:
        # the distances are derived, from positions that are not on the unit sphere
        from vf.alpha import dialects as D

        ds, exp = D.mpas(m, optional="all")
        ds = ds.drop_vars(["dvEdge", "dcEdge"])
        sup["face_lon"], sup["face_lat"] = sph.xyz2ll(np.asarray(exp["face_centres"]))
        return ux.open_grid(ds), sup
    if prov == "distances":
        g0 = build.grid(m)
        en = np.asarray(g0.edge_node_connectivity.values).copy()
        ne = en.shape[0]
        dn = 0.1 + 0.01 * np.arange(ne)  # deliberately not the geometric values
        df = 0.2 + 0.02 * np.arange(ne)
        ds = xr.Dataset(
            {
                "node_lon": (("n_node",), lon.copy()),
                "node_lat": (("n_node",), lat.copy()),
                "face_node_connectivity": (("n_face", "n_max_face_nodes"), m.table()),
                "edge_node_connectivity": (("n_edge", "two"), en),
                "edge_node_distances": (("n_edge",), dn.copy()),
                "edge_face_distances": (("n_edge",), df.copy()),
            }
        )
        sup["edge_node_distances"], sup["edge_face_distances"] = dn, df
        g = ux.Grid.from_dataset(ds, source_grid_spec="UGRID")
        return g, sup
    raise ValueError(prov)


def run_case(case):
    import uxarray as ux

    res = _new()
    V = res["violations"]
    base = meshes.get(case["mesh"])
    prov = case["prov"]
    last = None
    for d, m in meshes.deviations(base, 1, relabel_cap=case.get("cap")):
        if "only" in case and d != case["only"]["dev"]:
            continue

        def bad(oracle, sig, msg, extra=None):
            V.append({"oracle": oracle, "sig": sig, "msg": msg, "focus": dict(case, only=dict({"dev": d}, **(extra or {})))})

        try:
            g, sup = _mk(m, prov)
            en = np.asarray(g.edge_node_connectivity.values)
            ef = np.asarray(g.edge_face_connectivity.values)
            n_edge = int(g.n_edge)
            dn = np.asarray(g.edge_node_distances.values, dtype=float)
            df = np.asarray(g.edge_face_distances.values, dtype=float)
        except Exception as e:
            bad("tables", "c16:raises:%s" % type(e).__name__, repr(e))
            continue
        key = digest((case["mesh"], d, prov))
        res["states"].append(key)
        E = conn.edge_model(m.faces)
        n_int = sum(1 for v in E.values() if len(v) == 2)
        if (n_int and n_int < len(E)) or (m.closed and m.n_face >= 6):
            res["nontrivial"].append(key)
        res["evaluations"] += 1
        res["transitions"] += 2
        interior = ef[:, 1] != build.FILL
        P = np.array(m.points)
        # -- distances -------------------------------------------------------
        if prov in ("distances", "mpas"):
            if not np.array_equal(dn, sup["edge_node_distances"]):
                bad("edge_node_distances", "c16:supplied-node-dist-not-passed-through", "source-supplied edge_node_distances were replaced: %r" % dn[:4].tolist())
            if not np.array_equal(df, sup["edge_face_distances"]):
                bad("edge_face_distances", "c16:supplied-face-dist-not-passed-through", "source-supplied edge_face_distances were replaced: %r" % df[:4].tolist())
            ref_df = sup["edge_face_distances"]
        else:
            ref_dn = sph.angle(P[en[:, 0]], P[en[:, 1]])
            if dn.shape != (n_edge,) or not np.all(np.abs(dn - ref_dn) <= TOL):
                i = int(np.argmax(np.abs(dn - ref_dn))) if dn.shape == ref_dn.shape else -1
                bad("edge_node_distances", "c16:edge_node_distances:value", "edge %d (nodes %s): got %r, great-circle distance %r" % (i, en[i].tolist(), dn[i] if i >= 0 else dn.shape, ref_dn[i]))
            if prov in ("centres", "mpas-nodist"):
                C = sph.ll2xyz(sup["face_lon"], sup["face_lat"])
            else:
                gf = build.grid(m)
                C = sph.ll2xyz(gf.face_lon.values, gf.face_lat.values)
            ref_df = np.zeros(n_edge)
            ref_df[interior] = sph.angle(C[ef[interior, 0]], C[ef[interior, 1]])
            if df.shape != (n_edge,) or not np.all(np.abs(df - ref_df) <= TOL):
                i = int(np.argmax(np.abs(df - ref_df))) if df.shape == ref_df.shape else -1
                bad("edge_face_distances", "c16:edge_face_distances:value:%s" % prov, "edge %d (faces %s): got %r, distance between the two face centres %r" % (i, ef[i].tolist(), df[i] if i >= 0 else df.shape, ref_df[i]))
        # -- differences / gradients ---------------------------------------------
        for elem, n in (("n_face", m.n_face), ("n_node", m.n_node)):
            kinds = ("identity", "generic", "ones", "int") + (("impulses",) if d.get("dev") == 0 or "forder" in d else ())
            for dname, dbase in build.data_alphabet(n, kinds):
                for lead in (LEADS if not dname.startswith("impulse") else [()]):
                    data = build.lead_expand(dbase, lead)
                    da = build.uxda(g, data, elem, lead, name="t")
                    x = data.astype(float)
                    if elem == "n_face":
                        ref = np.zeros(x.shape[:-1] + (n_edge,))
                        ref[..., interior] = np.abs(x[..., ef[interior, 0]] - x[..., ef[interior, 1]])
                    else:
                        ref = np.abs(x[..., en[:, 0]] - x[..., en[:, 1]])
                    ex = {"elem": elem, "data": dname, "lead": list(lead)}
                    if "only" in case and case["only"].get("elem") and {k: case["only"].get(k) for k in ex} != ex:
                        continue
                    res["transitions"] += 1
                    try:
                        out = da.difference(destination="edge")
                        _cmp(out, ref, g, lead, bad, "difference:%s" % elem, ex, ux)
                    except Exception as e:
                        bad("difference", "c16:difference:%s:raises:%s" % (elem, type(e).__name__), repr(e), ex)
                    if elem != "n_face":
                        continue
                    gref = np.zeros_like(ref)
                    # "that difference divided by the centre-to-centre distance": the distance table the grid itself reports (judged above
                    # against geometry at 1e-9 rad absolute); dividing by the oracle's own distances instead would turn the admitted absolute
                    # distance error into a relative gradient error of 1e-9/d, i.e. 3e-5 on kilometre-scale meshes
                    gref[..., interior] = ref[..., interior] / (df[interior] if df.shape == ref_df.shape and np.all(df[interior] > 0) else ref_df[interior])
                    for normalize in (False, True):
                        if normalize:
                            nrm = np.sqrt((gref ** 2).sum(axis=-1, keepdims=True))
                            if np.any(nrm == 0):
                                continue
                            want = gref / nrm
                        else:
                            want = gref
                        res["transitions"] += 1
                        ex2 = dict(ex, normalize=normalize)
                        try:
                            out = da.gradient(normalize=normalize)
                            _cmp(out, want, g, lead, bad, "gradient:%s" % ("normalized-lead%d" % len(lead) if normalize else "plain"), ex2, ux)
                        except Exception as e:
                            bad("gradient", "c16:gradient:raises:%s" % type(e).__name__, repr(e), ex2)
                    last = ex
        # the tables must still be what they were after all difference/gradient calls (no in-place edits)
        try:
            dn2 = np.asarray(g.edge_node_distances.values, dtype=float)
            df2 = np.asarray(g.edge_face_distances.values, dtype=float)
            en2 = np.asarray(g.edge_node_connectivity.values)
            ef2 = np.asarray(g.edge_face_connectivity.values)
            for nm, a, b in (("edge_node_distances", dn, dn2), ("edge_face_distances", df, df2), ("edge_node_connectivity", en, en2), ("edge_face_connectivity", ef, ef2)):
                if a.shape != b.shape or not np.array_equal(a, b):
                    bad("state", "c16:%s-changed-by-difference/gradient" % nm, "%s read again after the difference()/gradient() calls differs from its first reading: %r -> %r" % (nm, a.tolist()[:6], b.tolist()[:6]))
        except Exception as e:
            bad("state", "c16:reread-raises:%s" % type(e).__name__, repr(e))
        # and a fresh grid on which gradient() runs *before* the tables are read
        if prov not in ("distances", "mpas"):
            try:
                g3, _ = _mk(m, prov)
                build.uxda(g3, build.generic_field(m.n_face), "n_face", name="t").gradient()
                df3 = np.asarray(g3.edge_face_distances.values, dtype=float)
                dn3 = np.asarray(g3.edge_node_distances.values, dtype=float)
                if not (np.all(np.abs(df3 - ref_df) <= TOL) and np.all(np.abs(dn3 - ref_dn) <= TOL)):
                    bad("state", "c16:distances-after-gradient-first", "edge distances read after an earlier gradient() differ from geometry: %r" % df3.tolist()[:6])
                res["transitions"] += 2
            except Exception as e:
                bad("state", "c16:gradient-first-raises:%s" % type(e).__name__, repr(e))
        res["outcomes"].append(digest((np.round(dn, 9), np.round(df, 9))))
    res["axes"] = {"mesh": {case["mesh"]: res["evaluations"]}, "provenance": {prov: res["evaluations"]}}
    res["sample"] = {"mesh": case["mesh"], "prov": prov, "last": last}
    return res


def _cmp(out, ref, g, lead, bad, what, ex, ux):
    if not isinstance(out, ux.UxDataArray):
        bad(what, "c16:%s:type" % what, "result is %s" % type(out).__name__, ex)
        return
    want = tuple("d%d" % i for i in range(len(lead))) + ("n_edge",)
    if tuple(out.dims) != want:
        bad(what, "c16:%s:dims" % what, "dims %s expected %s" % (out.dims, want), ex)
    if out.uxgrid is not g:
        bad(what, "c16:%s:grid" % what, "result is not on the same grid", ex)
    v = np.asarray(out.values, dtype=float)
    if v.shape != ref.shape:
        bad(what, "c16:%s:shape" % what, "shape %s expected %s" % (v.shape, ref.shape), ex)
        return
    tol = 1e-9 * max(1.0, float(np.max(np.abs(ref))) if ref.size else 1.0)
    if not np.all(np.abs(v - ref) <= tol):
        idx = tuple(int(i) for i in np.argwhere(~(np.abs(v - ref) <= tol))[0])
        bad(what, "c16:%s:value" % what, "%s element %s: got %r expected %r" % (ex, idx, v[idx], ref[idx]), ex)


def run(ctx):
    ctx.map(run_case, cases(ctx.tier))
