"""C10 -- xarray operations keep a UxDataArray attached to a consistent grid.

Explorer H over *programs*: breadth-first search over compositions of ~45 operations starting from 9 arrays; every
reached array is a state (merged on type, dims, dtype, values, coordinates and grid relation); every transition is
judged differentially against the same operation on a plain xarray.DataArray shadow, and the invariant
"grid dimensions have the grid's element counts" is evaluated in every state.
"""

import copy as _copy

import numpy as np

from vf.alpha import build, meshes
from vf.core import pool
from vf.core.state import digest

ID = "C10"
RULE = (
    "start arrays = {face, node, edge}-centred x leading dims {(), (t=3), (t=3, lev=2)} with coordinates on t/lev, float (and one int) on a grid whose n_face, n_node, "
    "n_edge are pairwise different; operations = 35 xarray operations (arithmetic, numpy ufuncs, where/clip/fillna/astype/round, indexing and reductions and cumulative/"
    "rolling/diff/shift along non-grid dims, transpose, rename, assign_coords, expand_dims, squeeze, concat, shallow/deep copies) + 10 uxarray operations (isel on grid "
    "dims, remap x2, integrate, gradient, difference, topological_mean, get_dual, subset, cross_section); BFS to depth d with state merging. non-trivial = transition whose "
    "result is a new state; distinct = canonical state"
)
ASSUMPTIONS = [
    "selections that leave no element along a grid dimension are not generated (there is no grid with zero faces to attach the result to)",
    "an operation is applicable in a state iff it succeeds on the plain-xarray shadow; it must then succeed on the UxDataArray and agree in values, dims, coords, name",
    "uxarray's own operations have no xarray reference: only type, attached grid and the dimension/element-count invariant are judged (their values belong to C06/C09/C12/C16/C17/C18)",
    "UxDataset is not reachable (its constructor is incompatible with the installed xarray)",
]
BOUNDS = {"quick": "depth 2 from 9 start arrays on one grid", "thorough": "depth 3 from 9 start arrays on one grid, depth 2 on a second grid"}


def _starts(g):
    import xarray as xr

    n = {"n_face": g.n_face, "n_node": g.n_node, "n_edge": g.n_edge}
    out = []
    for elem in ("n_face", "n_node", "n_edge"):
        base = build.generic_field(n[elem])
        for lead, shape in ((), ()), (("t",), (3,)), (("t", "lev"), (3, 2)):
            data = build.lead_expand(base, shape)
            coords = {}
            if "t" in lead:
                coords["t"] = [10.0, 20.0, 30.0]
            if "lev" in lead:
                coords["lev"] = [1, 2]
            out.append(("%s%s" % (elem, list(lead)), data, lead + (elem,), coords))
    out.append(("n_face['t']int", np.arange(3 * n["n_face"]).reshape(3, n["n_face"]) - 4, ("t", "n_face"), {"t": [10.0, 20.0, 30.0]}))
    return out


def _ops(other_grid):
    import xarray as xr

    O = []

    def op(name, fn, ux_only=False, deep=False):
        O.append((name, fn, ux_only, deep))

    op("x+1", lambda x: x + 1)
    op("x*x", lambda x: x * x)
    op("-x", lambda x: -x)
    op("abs", lambda x: abs(x))
    op("x>0", lambda x: x > 0)
    op("np.sin", lambda x: np.sin(x))
    op("np.add(x,1)", lambda x: np.add(x, 1))
    op("where", lambda x: x.where(x > 0))
    op("where(other)", lambda x: x.where(x > 0, -1.0))
    op("clip", lambda x: x.clip(0, 1))
    op("fillna", lambda x: x.fillna(0))
    op("astype(f4)", lambda x: x.astype(np.float32))
    op("round", lambda x: x.round(1))
    op("isel(t=0)", lambda x: x.isel(t=0))
    op("isel(t=[0,2])", lambda x: x.isel(t=[0, 2]))
    op("sel(t=20)", lambda x: x.sel(t=20.0))
    op("isel(t=0,n_face=[0,1])", lambda x: x.isel(t=0, n_face=[0, 1]))
    op("isel(n_face=[3,1])", lambda x: x.isel(n_face=[3, 1]))  # not ascending: values follow the requested order, as in plain xarray
    op("isel(n_face=[2,2,0])", lambda x: x.isel(n_face=[2, 2, 0]))  # a face requested twice
    op("isel(n_face=[-1,0])", lambda x: x.isel(n_face=[-1, 0]))  # from-the-end index

    # a grid-dimension selection on ANOTHER variable that lives on the same Grid object (same index values, other dimension):
    # leaves this array as it is; whatever it leaves behind on the shared grid must not reach later selections of this array
    def side(dim, idx):
        def f(x):
            g = getattr(x, "uxgrid", None)
            if g is not None:
                import uxarray as ux

                n = {"n_node": g.n_node, "n_edge": g.n_edge, "n_face": g.n_face}[dim]
                if max(idx) < n:
                    try:
                        ux.UxDataArray(np.zeros(n), dims=[dim], uxgrid=g, name="sibling").isel(**{dim: idx})
                    except Exception:
                        pass  # the sibling's own result is not judged here (e.g. a selection that leaves no face on a degenerate grid)
            return x

        return f

    op("sibling.isel(n_node=[3,1])", side("n_node", [3, 1]))
    op("sibling.isel(n_node=[0,1])", side("n_node", [0, 1]))
    op("sibling.isel(n_edge=[2,2,0])", side("n_edge", [2, 2, 0]))
    op("isel(n_face=slice(1,4))", lambda x: x.isel(n_face=slice(1, 4)))
    op("ux.isel(n_node=[2],lev=1)", lambda x: x.isel(n_node=[2], lev=1), ux_only=True)  # inclusive node selection: no xarray counterpart
    op("x[0]", lambda x: x[0] if x.dims[0] not in ("n_face", "n_node", "n_edge") else (_ for _ in ()).throw(KeyError("grid dim")))
    op("mean(t)", lambda x: x.mean("t"))
    op("sum(t)", lambda x: x.sum("t"))
    op("min(lev)", lambda x: x.min("lev"))
    op("std(t)", lambda x: x.std("t"))
    op("cumsum(t)", lambda x: x.cumsum("t"))
    op("rolling(t=2).mean", lambda x: x.rolling(t=2).mean())
    op("diff(t)", lambda x: x.diff("t"))
    op("shift(t=1)", lambda x: x.shift(t=1))
    op("transpose", lambda x: x.transpose())
    op(".T", lambda x: x.T)
    op("rename(name)", lambda x: x.rename("renamed"))
    op("rename({t:time})", lambda x: x.rename({"t": "time"}))
    op("assign_coords", lambda x: x.assign_coords(t=[1.0, 2.0, 3.0][: x.sizes["t"]]))
    op("expand_dims", lambda x: x.expand_dims("z"))
    op("squeeze", lambda x: x.squeeze())
    op("concat(t)", lambda x: xr.concat([x, x], "t"))
    op("copy(deep=False)", lambda x: x.copy(deep=False))
    op("copy(deep=True)", lambda x: x.copy(deep=True), deep=True)
    op("copy(deep=True,data=)", lambda x: x.copy(deep=True, data=np.asarray(x.values) * 2), deep=True)
    op("copy(data=)", lambda x: x.copy(data=np.asarray(x.values) + 1), deep=True)  # copy() is deep by default
    op("copy.copy", lambda x: _copy.copy(x))
    op("copy.deepcopy", lambda x: _copy.deepcopy(x), deep=True)
    # uxarray's own operations
    op("ux.isel(n_face=[0,1])", lambda x: x.isel(n_face=[0, 1]), ux_only=True)
    op("ux.isel(n_face=[3])", lambda x: x.isel(n_face=[3]), ux_only=True)  # one face: a grid dimension of length one (squeeze, reductions, ... see it)
    op("ux.isel(n_face=2)", lambda x: x.isel(n_face=2), ux_only=True)  # scalar indexer
    op("ux.isel(n_node=[2])", lambda x: x.isel(n_node=[2]), ux_only=True)
    op("ux.isel(n_edge=[1,3])", lambda x: x.isel(n_edge=[1, 3]), ux_only=True)
    op("ux.remap.nn(other,nodes)", lambda x: x.remap.nearest_neighbor(other_grid, remap_to="nodes"), ux_only=True)
    op("ux.remap.idw(other,faces)", lambda x: x.remap.inverse_distance_weighted(other_grid, remap_to="face centers", k=2), ux_only=True)
    op("ux.integrate", lambda x: x.integrate(), ux_only=True)
    op("ux.gradient", lambda x: x.gradient(), ux_only=True)
    op("ux.difference", lambda x: x.difference("edge"), ux_only=True)
    op("ux.topological_mean(face)", lambda x: x.topological_mean(destination="face"), ux_only=True)
    op("ux.get_dual", lambda x: x.get_dual(), ux_only=True)
    op("ux.subset.nn", lambda x: x.subset.nearest_neighbor((31.0, 12.0), k=2, element="face centers"), ux_only=True)
    return O


def _grid_ok(obj):
    """invariant: grid dims have the grid's element counts. returns message or None"""
    g = obj.uxgrid
    if g is None:
        return "no grid attached"
    for dim, cnt in (("n_face", "n_face"), ("n_node", "n_node"), ("n_edge", "n_edge")):
        if dim in obj.dims:
            try:
                c = int(getattr(g, cnt))
            except Exception as e:
                return "grid cannot report %s: %r" % (cnt, e)
            if obj.sizes[dim] != c:
                return "dimension %s has length %d but the attached grid has %s = %d" % (dim, obj.sizes[dim], cnt, c)
    return None


def _same_values(a, b):
    if a.shape != b.shape:
        return False
    if a.dtype == object:
        return repr(a.tolist()) == repr(b.tolist())
    return bool(np.array_equal(a, b, equal_nan=a.dtype.kind in "fc"))


def _canon(ux_obj, rel):
    import uxarray as ux

    vals = np.asarray(ux_obj.values)
    return digest((type(ux_obj).__name__, tuple(ux_obj.dims), str(vals.dtype), vals, sorted((str(k), np.asarray(v.values)) for k, v in ux_obj.coords.items()), str(ux_obj.name), rel))


def run_case(case):
    """one start array, one first operation: BFS below it (depth-1 more levels)"""
    import uxarray as ux
    import xarray as xr

    res = {"violations": [], "evaluations": 0, "transitions": 0, "nontrivial": [], "outcomes": [], "axes": {}, "states": []}
    V = res["violations"]
    pool.fresh()
    m = meshes.get(case["mesh"])
    g = build.grid(m)
    other = build.grid(meshes.get("cube" if case["mesh"] != "cube" else "prism"))
    starts = _starts(g)
    sname, data, dims, coords = starts[case["start"]]
    OPS = _ops(other)
    depth = case["depth"]
    u0 = ux.UxDataArray(data.copy(), dims=dims, coords=coords, uxgrid=g, name="v")
    x0 = xr.DataArray(data.copy(), dims=dims, coords=coords, name="v")
    # state: (ux obj, xr shadow, expected grid object or None (=any Grid), relation label, program)
    frontier = [(u0, x0, g, "same", [])]
    seen = {_canon(u0, "same")}
    msg0 = _grid_ok(u0)
    if msg0:
        V.append({"oracle": "invariant", "sig": "c10:invariant:start", "msg": msg0, "focus": dict(case)})
    opstat = {}
    for level in range(depth):
        nxt = []
        for (u, x, gexp, rel, prog) in frontier:
            for oi, (oname, fn, ux_only, deep) in enumerate(OPS):
                if level == 0 and "first" in case and oi != case["first"]:
                    continue
                p2 = prog + [oname]
                if "only" in case and p2 != case["only"][: len(p2)]:
                    continue
                focus = dict(case, only=p2)
                xs = None
                diverged = False
                if not ux_only:
                    try:
                        xs = fn(x)
                    except Exception:
                        continue  # not applicable in this state
                    if not isinstance(xs, xr.DataArray):
                        continue
                    if any(d in ("n_face", "n_node", "n_edge") and n == 0 for d, n in zip(xs.dims, xs.shape)):
                        continue  # an empty selection has no Grid to be attached to: outside the statement
                res["transitions"] += 1
                try:
                    r = fn(u)
                except Exception as e:
                    if not ux_only:
                        V.append({"oracle": "diff", "sig": "c10:raises:%s:%s" % (oname, type(e).__name__), "msg": "start %s, program %s: raised %r where plain xarray returns an array" % (sname, p2, e), "focus": focus})
                    continue
                opstat[oname] = opstat.get(oname, 0) + 1
                res["evaluations"] += 1
                if not isinstance(r, xr.DataArray):
                    continue  # scalars etc. are not arrays
                if not isinstance(r, ux.UxDataArray):
                    V.append({"oracle": "type", "sig": "c10:type:%s" % oname, "msg": "start %s, program %s: result is %s, not UxDataArray" % (sname, p2, type(r).__name__), "focus": focus})
                    # continue the search from a re-wrapped array so that later ops are still explored
                    continue
                rg = r.uxgrid
                if rg is None or not isinstance(rg, ux.Grid):
                    V.append({"oracle": "grid", "sig": "c10:grid-lost:%s" % oname, "msg": "start %s, program %s: result has uxgrid=%r" % (sname, p2, rg), "focus": focus})
                    continue
                rel2, gexp2 = rel, gexp
                if oname.startswith("sibling.") and oname not in rel:
                    rel2 = rel + "+" + oname  # hidden state on the shared Grid object: part of the search state, or the merge would drop these programs
                if not ux_only:
                    if deep:
                        if rg is gexp:
                            V.append({"oracle": "grid", "sig": "c10:deepcopy-shares-grid:%s" % oname, "msg": "start %s, program %s: deep copy is attached to the identical Grid object" % (sname, p2), "focus": focus})
                        elif not (rg == gexp):
                            V.append({"oracle": "grid", "sig": "c10:deepcopy-grid-differs:%s" % oname, "msg": "start %s, program %s: deep copy's grid is not equal to the original's" % (sname, p2), "focus": focus})
                        gexp2, rel2 = rg, rel + "+deep"
                    elif oname.startswith("isel(") and ("n_face=" in oname or "n_node=" in oname):
                        gexp2, rel2 = rg, "ux:isel"  # a grid dimension was indexed: the grid is the sliced one
                    elif rg is not gexp:
                        V.append({"oracle": "grid", "sig": "c10:grid-not-same:%s" % oname, "msg": "start %s, program %s: result is attached to a different Grid object" % (sname, p2), "focus": focus})
                        gexp2 = rg
                    # differential values
                    try:
                        ok = tuple(r.dims) == tuple(xs.dims) and r.name == xs.name and np.asarray(r.values).dtype == np.asarray(xs.values).dtype and _same_values(np.asarray(r.values), np.asarray(xs.values))
                        cok = sorted(map(str, r.coords)) == sorted(map(str, xs.coords)) and all(np.array_equal(np.asarray(r.coords[k].values), np.asarray(xs.coords[k].values)) for k in xs.coords)
                    except Exception as e:
                        ok, cok = False, True
                    if not ok:
                        diverged = True
                        V.append({"oracle": "diff", "sig": "c10:value-differs:%s" % oname, "msg": "start %s, program %s: dims/name/values differ from plain xarray (%s %s vs %s %s)" % (sname, p2, r.dims, r.name, xs.dims, xs.name), "focus": focus})
                    elif not cok:
                        V.append({"oracle": "diff", "sig": "c10:coords-differ:%s" % oname, "msg": "start %s, program %s: coordinates differ from plain xarray" % (sname, p2), "focus": focus})
                else:
                    gexp2 = rg
                    rel2 = "ux:" + oname.split("(")[0]
                    xs = xr.DataArray(np.asarray(r.values).copy(), dims=r.dims, coords={k: v.values for k, v in r.coords.items() if set(v.dims) <= set(r.dims)}, name=r.name)
                inv = _grid_ok(r)
                if inv:
                    bdim = inv.split()[1] if inv.startswith("dimension") else "grid"
                    V.append({"oracle": "invariant", "sig": "c10:invariant:%s:%s:%s-grid" % (oname, bdim, "closed" if _closed(u.uxgrid) else "partial"), "msg": "start %s, program %s: %s" % (sname, p2, inv), "focus": focus})
                    continue  # reported at its source; programs are not extended from an inconsistent array
                if diverged:
                    continue  # reported at its source; the shadow no longer mirrors this array
                key = _canon(r, rel2)
                res["outcomes"].append(key)
                if key not in seen:
                    seen.add(key)
                    res["nontrivial"].append(key)
                    if level + 1 < depth:
                        nxt.append((r, xs, gexp2, rel2, p2))
        frontier = nxt
    res["states"] = list(seen)
    res["axes"] = {"start": {sname: res["evaluations"]}, "ops": opstat, "depth": {str(depth): res["transitions"]}}
    res["sample"] = {"mesh": case["mesh"], "start": sname, "first_op": _ops(None)[case["first"]][0] if "first" in case else "*", "depth": depth, "distinct_states": len(seen)}
    return res


def _closed(g):
    """every edge of the grid the operation was applied to (not of the start grid: subsets of closed grids are partial) has two faces"""
    from collections import Counter

    try:
        fn = np.asarray(g._ds["face_node_connectivity"].values)
        c = Counter()
        for row in fn:
            r = [int(i) for i in row if i >= 0]
            for j in range(len(r)):
                c[frozenset((r[j], r[(j + 1) % len(r)]))] += 1
        return bool(c) and all(v == 2 for v in c.values())
    except Exception:
        return False


def cases(tier):
    out = []
    nops = len(_ops(None))
    plan = [("mixedpatch", 2)] if tier == "quick" else [("mixedpatch", 3), ("cube", 2)]
    for mesh, d in plan:
        for s in range(10):
            for f in range(nops):
                out.append({"mesh": mesh, "start": s, "first": f, "depth": d})
    return out


def selftest_case(tier):
    return {"mesh": "mixedpatch", "start": 1, "first": 0, "depth": 2}


def warmup(tier):
    for f in (41, 44, 45, 46, 47, 48, 49, 50):
        run_case({"mesh": "mixedpatch", "start": 0, "first": f, "depth": 1})
    run_case({"mesh": "mixedpatch", "start": 3, "first": 48, "depth": 1})
    run_case({"mesh": "mixedpatch", "start": 6, "first": 43, "depth": 1})


def run(ctx):
    ctx.map(run_case, cases(ctx.tier), chunksize=4)
