"""C08 -- Reading from a grid never changes what any grid reports.

Explorer H (vf.core.hexplore): BFS over all histories of ~107 public read-only
operations on one grid (depth d from the fresh state and from saturated seed
states) and over two live grids of different size; every transition's return
value is compared with the fresh-grid value of the same call; module-level
state of uxarray must stay at its import-time value.  A second pass repeats
depth-1/2 exploration in an interpreter started with NUMBA_DISABLE_JIT=1 and
compares with the JIT-on reference values.
"""

import json
import os
import pickle
import subprocess
import sys
import tempfile

import numpy as np

from vf.alpha import build, events as E, meshes
from vf.core import hexplore, pool

ID = "C08"
RULE = (
    "alphabet = 107 events (every lazily computed Grid attribute, compute_face_areas x3, total area x2, to_xarray x3, to_geodataframe x10, "
    "to_polycollection x5, to_linecollection x5, get_ball_tree/get_kd_tree x14 each followed by fixed k-nearest and radius queries, chunk, isel x4, "
    "subset x6, cross-section x3, get_dual, copy, validate, inventory properties, repr); states = canonical digest of every live grid's __dict__ "
    "(dataset, attrs, caches, trees) + every module-level container of uxarray.*; a history is expanded only from a new state; "
    "non-trivial = transition that changed the state; every transition's value compared with the fresh-grid value"
)
ASSUMPTIONS = [
    "reference values come from the same event on a freshly built grid in restored import-time module state (self-test: a spawned fresh interpreter reproduces the whole reference table of one setup)",
    "exports may gain derived variables (each equal to its fresh value) and inventory properties may list more; grid_topology attributes are C07's",
    "float observations compared at 1e-12 absolute (JIT-off vs JIT-on at 1e-9)",
    "grids have <= 13 nodes; sources: from_topology tables, and tables that ship their own edge numbering",
]
BOUNDS = {
    "quick": "depth 2 from the fresh state on 4 grids; depth 1 from 3 seed states (saturated, saturated-reverse, chunked); depth 2 over two live grids on the state-changing alphabet; JIT-off: depth 1 on 2 grids",
    "thorough": "depth 3 from the fresh state on 5 grids incl. the MPAS-read one (state-merged); depth 2 from 3 seed states; depth 2 over two live grids (two pairs) on the full alphabet, depth 3 on the state-changing alphabet for the first pair; JIT-off: depth 2 on 2 grids",
}

EVENTS = E.build_events()


def _ships(mesh_name, with_fe):
    def f():
        import uxarray as ux
        from vf.oracle import conn

        m = meshes.get(mesh_name)
        lon, lat = m.lonlat()
        keys = sorted(conn.edge_model(m.faces), key=lambda k: sorted(k))
        order = list(reversed(keys))
        en = np.array([sorted(k) for k in order], dtype=np.intp)
        kw = {"edge_node_connectivity": en}
        if with_fe:
            idx = {k: i for i, k in enumerate(order)}
            fe = np.full((m.n_face, m.width), build.FILL, dtype=np.intp)
            for fi, fc in enumerate(m.faces):
                for j in range(len(fc)):
                    fe[fi, j] = idx[frozenset((fc[j], fc[(j + 1) % len(fc)]))]
            kw["face_edge_connectivity"] = fe
        return ux.Grid.from_topology(lon.copy(), lat.copy(), m.table(), fill_value=build.FILL, **kw)

    return f


def _plain(name):
    return lambda: build.grid(meshes.get(name))


def _mpas(name):
    def f():
        import uxarray as ux
        from vf.alpha import dialects as D

        return ux.open_grid(D.mpas(meshes.get(name), optional="all")[0])

    return f


SETUPS = [
    hexplore.Setup("mpas", {"A": _mpas("pyr5")}),
    hexplore.Setup("mixedpatch", {"A": _plain("mixedpatch")}),
    hexplore.Setup("cube", {"A": _plain("cube")}),
    hexplore.Setup("amstrip", {"A": _plain("amstrip")}),
    hexplore.Setup("ships", {"A": _ships("pyr5", True)}),
    hexplore.Setup("pair", {"A": _plain("mixedpatch"), "B": _ships("prism", False)}),
    hexplore.Setup("pair2", {"A": _plain("amstrip"), "B": _plain("tetra")}),
]
EXP = hexplore.Explorer("c08", SETUPS, EVENTS)
JIT_TOL = 1e-9


def run_case(case):
    if case.get("jit") == "off" and os.environ.get("NUMBA_DISABLE_JIT") != "1":
        return _in_jitoff_process(case)
    return EXP.task(case)


def selftest_case(tier):
    # the whole reference table of one setup, as one fully checked history per event
    return {"kind": "expand", "setup": "mixedpatch", "hist": [], "canon": None}


def warmup(tier):
    for s in ("mixedpatch", "ships", "amstrip"):
        EXP.task({"kind": "expand", "setup": s, "hist": [], "canon": None})
    EXP.ref.clear()


def worker_init():
    import numba

    numba.set_num_threads(1)


def _seeds(sname):
    sat = [("A", "attr:" + a) for a in E.ATTRS]
    return [(), tuple(sat), tuple(reversed(sat)), (("A", "chunk()"),)]


def _changing_alphabet(ctx, sname, tags):
    """events that changed the state at depth 1 (from the depth-1 BFS level)"""
    out = []
    cases = [{"kind": "expand", "setup": sname, "hist": [], "canon": None}]
    r = ctx.map(run_case, cases)[0]
    base = None
    g, v, base, _ = EXP.replay(sname, [])
    for (ev, c) in r["succ"]:
        if c != base:
            out.append(list(ev))
    return out


def run(ctx):
    EXP.compute_ref()
    ctx.extra["ref_digest"] = {s: EXP.ref_digest(s) for s in EXP.setups}
    singles = ["mixedpatch", "cube", "amstrip", "ships"] if ctx.tier == "quick" else ["mixedpatch", "cube", "amstrip", "ships", "mpas"]
    if ctx.tier == "quick":
        _bfs(ctx, "mpas", 1, [()], label="fresh (MPAS source)")
        # the grid read from a source that ships coordinates and tables: saturated / chunked first, then every event
        _bfs(ctx, "mpas", 1, _seeds("mpas")[1:], label="seeded (MPAS source)")
    deep = 2 if ctx.tier == "quick" else 3
    for s in singles:
        _bfs(ctx, s, deep, [()], label="fresh")
        _bfs(ctx, s, 1 if ctx.tier == "quick" else 2, _seeds(s)[1:], label="seeded")
    for s in ("pair", "pair2"):
        if ctx.tier == "quick":
            alpha = _changing_alphabet(ctx, s, ("A", "B"))
            ctx.extra.setdefault("changing_alphabet", {})[s] = len(alpha)
            _bfs(ctx, s, 2, [()], alphabet=alpha, label="two-grids/state-changing")
        else:
            _bfs(ctx, s, 2, [()], label="two-grids/full")
            alpha = _changing_alphabet(ctx, s, ("A", "B"))
            ctx.extra.setdefault("changing_alphabet", {})[s] = len(alpha)
            # depth 3 over the state-changing events is 1.6 M transitions per pair: done on the first pair only (the second pair
            # differs in which grid is the larger one and keeps its full depth-2 search)
            _bfs(ctx, s, 3 if s == "pair" else 2, [()], alphabet=alpha, label="two-grids/state-changing")
    _jitoff_pass(ctx)


def _bfs(ctx, sname, depth, seeds, alphabet=None, label=""):
    EXP_bfs(ctx, sname, depth, seeds, alphabet, label)


def EXP_bfs(ctx, sname, depth, seeds, alphabet, label):
    # hexplore.bfs with the module-level task function (bound methods do not pickle)
    seen = {}
    frontier = []
    stats = {"setup": sname, "label": label, "levels": [], "seeds": len(seeds)}
    seed_cases = [{"kind": "one", "setup": sname, "hist": [list(x) for x in sd], "check_from": 0} for sd in seeds]
    for case, r in zip(seed_cases, ctx.map(run_case, seed_cases)):
        c = r["succ"][0][1]
        if c not in seen:
            seen[c] = case["hist"]
            frontier.append((case["hist"], c))
    for d in range(depth):
        cases = [{"kind": "expand", "setup": sname, "hist": h, "canon": c, "alphabet": alphabet} for h, c in frontier]
        results = ctx.map(run_case, cases)
        nxt, ntrans = [], 0
        for case, r in zip(cases, results):
            for (ev, c) in r["succ"]:
                ntrans += 1
                if c not in seen:
                    h2 = case["hist"] + [list(ev)]
                    seen[c] = h2
                    nxt.append((h2, c))
        stats["levels"].append({"depth": d + 1, "expanded_states": len(frontier), "transitions": ntrans, "new_states": len(nxt)})
        frontier = nxt
        if not frontier:
            break
    stats["distinct_states"] = len(seen)
    stats["unexpanded_frontier"] = len(frontier)
    ctx.extra.setdefault("bfs", []).append(stats)
    return stats


# --------------------------------------------------------------------------- JIT-off pass
def _jitoff_pass(ctx):
    depth = 1 if ctx.tier == "quick" else 2
    setups = ["mixedpatch", "ships"]
    with tempfile.TemporaryDirectory(prefix="vf-c08-") as td:
        refp = os.path.join(td, "ref.pkl")
        outp = os.path.join(td, "out.json")
        with open(refp, "wb") as f:
            pickle.dump({k: v for k, v in EXP.ref.items() if k[0] in setups}, f)
        env = dict(os.environ, NUMBA_DISABLE_JIT="1", PYTHONHASHSEED="0")  # PYTHONPATH is inherited
        p = subprocess.run([sys.executable, "-W", "ignore", "-m", "vf.props.c08", "jitoff", refp, outp, str(depth), ",".join(setups)], env=env, capture_output=True, text=True, cwd=os.path.dirname(os.path.dirname(os.path.dirname(os.path.abspath(__file__)))), timeout=3000)
        if not os.path.exists(outp):
            raise RuntimeError("JIT-off pass failed:\n" + p.stdout[-3000:] + p.stderr[-3000:])
        results = json.load(open(outp))
    n = 0
    for r in results:
        for v in r["violations"]:
            v["focus"]["jit"] = "off"
            v["sig"] = v["sig"].replace("c08:", "c08:jit-off:", 1)
            v["msg"] = "[NUMBA_DISABLE_JIT=1] " + v["msg"]
        r["axes"] = {"jit_off_depth": {str(depth): r["transitions"]}}
        ctx.add({"jit": "off", "setup": r.get("setup")}, r)
        n += r["transitions"]
    ctx.extra["jit_off_pass"] = {"depth": depth, "setups": setups, "transitions": n}


def _jitoff_main(refp, outp, depth, setups):
    """runs inside an interpreter started with NUMBA_DISABLE_JIT=1"""
    import warnings

    warnings.filterwarnings("ignore")
    mod = sys.modules[__name__]
    pool.prepare(type("M", (), {})(), "quick")
    EXP.ref.update(pickle.load(open(refp, "rb")))
    EXP.tol = JIT_TOL
    out = []
    for s in setups:
        seen = {}
        frontier = [([], None)]
        for d in range(depth):
            nxt = []
            for h, c in frontier:
                r = EXP.task({"kind": "expand", "setup": s, "hist": h, "canon": c})
                r["setup"] = s
                for (ev, c2) in r.pop("succ"):
                    if c2 not in seen:
                        seen[c2] = 1
                        nxt.append((h + [list(ev)], c2))
                out.append(r)
            frontier = nxt
    from vf.core.runner import _json_default

    json.dump(out, open(outp, "w"), default=_json_default)


def _in_jitoff_process(case):
    """replay of a JIT-off violation from a JIT-on process"""
    with tempfile.TemporaryDirectory(prefix="vf-c08-") as td:
        refp = os.path.join(td, "ref.pkl")
        outp = os.path.join(td, "out.json")
        casep = os.path.join(td, "case.json")
        EXP.compute_ref([case["setup"]])
        pickle.dump({k: v for k, v in EXP.ref.items() if k[0] == case["setup"]}, open(refp, "wb"))
        json.dump(case, open(casep, "w"))
        env = dict(os.environ, NUMBA_DISABLE_JIT="1", PYTHONHASHSEED="0")  # PYTHONPATH is inherited
        p = subprocess.run([sys.executable, "-W", "ignore", "-m", "vf.props.c08", "jitoff-one", refp, outp, casep], env=env, capture_output=True, text=True, cwd=os.path.dirname(os.path.dirname(os.path.dirname(os.path.abspath(__file__)))), timeout=3000)
        if not os.path.exists(outp):
            raise RuntimeError("JIT-off replay failed:\n" + p.stdout[-3000:] + p.stderr[-3000:])
        r = json.load(open(outp))
    for v in r["violations"]:
        v["focus"]["jit"] = "off"
        v["sig"] = v["sig"].replace("c08:", "c08:jit-off:", 1)
    r["succ"] = [tuple(x) if x else x for x in r.get("succ", [])]
    return r


if __name__ == "__main__":
    import vf.props.c08 as me  # run under the package name so that EXP is the module's

    if sys.argv[1] == "jitoff":
        me._jitoff_main(sys.argv[2], sys.argv[3], int(sys.argv[4]), sys.argv[5].split(","))
    elif sys.argv[1] == "jitoff-one":
        import warnings

        warnings.filterwarnings("ignore")
        pool.prepare(type("M", (), {})(), "quick")
        me.EXP.ref.update(pickle.load(open(sys.argv[2], "rb")))
        me.EXP.tol = JIT_TOL
        case = json.load(open(sys.argv[4]))
        r = me.EXP.task(case)
        from vf.core.runner import _json_default

        json.dump(r, open(sys.argv[3], "w"), default=_json_default)
