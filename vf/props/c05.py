"""C05 -- Face areas are the spherical-polygon areas, invariantly.

Explorer G: convex faces from finite families (regular n-gons over radii/centres/phases; convex lattice faces under
rigid placements; closed tilings) x every start corner x both coordinate inputs x both quadrature families and
every supported order, against the exact spherical excess; plus an exhaustive moment check of every quadrature
table (degree of exactness) and additivity over every diagonal / centre-fan subdivision.
"""

import itertools
import math
from fractions import Fraction as Fr

import numpy as np

from vf.alpha import build, meshes
from vf.core import pool
from vf.core.state import digest
from vf.oracle import sph

ID = "C05"
RULE = (
    "faces: kilometre-scale n-gons (radius 0.003 deg) and pentagons with one 0.005-deg edge; regular n-gons n=3..8 x angular radius {1, 4.9, 14.9, 32} deg (<= 10 / 30 / 65 degrees across) x 13 centres (both poles, antimeridian, prime meridian, "
    "generic) x 2 phases; convex lattice triangles/quads under 4 placements; each under every start corner, three coordinate inputs (lon/lat, unit xyz, xyz in kilometres), both families x "
    "every supported order (triangular 1,4,8,10,12; gaussian 1..10); every diagonal and centre-fan subdivision; closed tilings (icosahedron, 2^3 and 3^3 cube-spheres) "
    "under node/face renumbering; quadrature tables: every rule x every monomial up to degree 24. non-trivial = face with >= 4 corners or placed on a pole / the "
    "antimeridian; distinct = (face, start corner, rule, order, input)"
)
ASSUMPTIONS = [
    "exact area = spherical excess by the Van Oosterom-Strackee atan2 formula over a corner fan (float64; absolute error < 1e-14)",
    "accuracy thresholds of the statement for the default rule: relative 1e-2 / 1e-4 / 1e-6 for faces up to 65 / 30 / 10 degrees across (largest corner-to-corner angle)",
    "convergence is judged on the error envelope over the face set (errors net of a 2e-14 sr absolute floor: the oracle's own float64 resolution, visible on the 0.1-degree faces of the thorough tier): highest order of each family within 1e-10 relative on faces <= 30 degrees across, and the envelope "
    "does not grow with the order beyond a factor 1.5 and a floor of 1e-12",
    "invariance tolerances: start corner / rotation / input kind may change the result by at most the statement's accuracy bound for that face; start-corner invariance is judged for orders >= 4 (coarser rules differ by their own quadrature error); table exactness must be >= 1 and non-decreasing in the order (the 9-point table is a Lobatto-type rule of degree 15, which satisfies this)",
]
BOUNDS = {"quick": "n-gons 4 radii x 13 centres x 1 phase; convex 3-/4-subsets of the 4x4 lattice with index sum = 0 mod 7 on 2 placements; tables to degree 24", "thorough": "n-gons: 7 radii x 13 centres x 3 phases; every convex 3-, 4- and 5-subset of a 5x4 lattice on 6 placements (poles, antimeridian, prime meridian/equator); cs3 tiling too"}
TRI_ORDERS = [1, 4, 8, 10, 12]
GAUSS_ORDERS = list(range(1, 11))
CENTRES = [(0, 90), (0, -90), (180, 0), (-180, 30), (179, -45), (0, 0), (0.5, 50), (45, 45), (-120, 30), (100, -50), (10, 75), (-60, -20), (33, 88)]


def _class_tol(across_deg):
    if across_deg <= 10.0:
        return 1e-6
    if across_deg <= 30.0:
        return 1e-4
    if across_deg <= 65.0:
        return 1e-2
    return None


def _across(P):
    d = sph.angle(P[:, None, :], P[None, :, :])
    return math.degrees(float(d.max()))


def _ngon(n, radius_deg, centre, phase):
    from vf.props.c13 import _ngon as ng

    return ng(n, radius_deg, centre, phase)


def _faces(tier):
    phases = [0.2] if tier == "quick" else [0.2, 1.1, 2.3]
    for n in range(3, 9):
        for rad in ((1.0, 4.9, 14.9, 32.0) if tier == "quick" else (0.1, 1.0, 4.9, 9.9, 14.9, 24.0, 32.0)):
            for ci, c in enumerate(CENTRES):
                for ph in phases:
                    yield {"fam": "ngon", "n": n, "r": rad, "c": ci, "ph": ph}, _ngon(n, rad, c, ph)
    # kilometre-scale faces and faces with one very short edge (absolute tolerances in the code would show here)
    for n in (3, 4, 6):
        for ci in (0, 3, 5, 6, 9):
            yield {"fam": "tiny", "n": n, "c": ci}, _ngon(n, 0.003, CENTRES[ci], 0.4)
    for ci, (lo, la) in enumerate([(11.0, 47.0), (-179.9975, -20.0), (60.0, 89.2)]):
        ll = [(0.0, 0.0), (0.005, 0.0), (0.6, 0.5), (0.1, 1.0), (-0.5, 0.45)]
        yield {"fam": "short-edge", "place": ci}, np.array([meshes.lonlat_to_xyz(lo + a / max(0.05, math.cos(math.radians(la))), la + b * 0.7) for a, b in ll])
    base = [(2.0 * i + 0.3 * j, 1.7 * j + 0.2 * i) for i in range(4 if tier == "quick" else 5) for j in range(4)]
    places = [(20.0, 30.0), (-179.0, -40.0)] if tier == "quick" else [(20.0, 30.0), (-179.0, -40.0), (-2.0, 80.0), (100.0, -85.0), (0.5, 0.5), (179.0, 89.0)]
    for pi, (lo, la) in enumerate(places):
        R = meshes.rot_axis((0, 0, 1), lo) @ meshes.rot_axis((0, 1, 0), -la)
        pts = [R @ np.array(meshes.lonlat_to_xyz(a, b)) for a, b in base]
        for k in ((3, 4) if tier == "quick" else (3, 4, 5)):
            for comb in itertools.combinations(range(len(base)), k):
                if tier == "quick" and (sum(comb) + k) % 7 != 0:
                    continue  # quick: the residue class 0 mod 7 of the index sum; thorough: every subset
                P = np.array([pts[i] for i in comb])
                c = sph.unit(P.mean(axis=0))
                e1 = sph.unit(np.cross([0.3, 0.2, 1.0], c))
                e2 = np.cross(c, e1)
                P = P[np.argsort(np.arctan2(P @ e2, P @ e1))]
                ok = all(np.dot(np.cross(P[i], P[(i + 1) % k]), P[(i + 2) % k]) > 1e-6 for i in range(k))
                if ok:
                    yield {"fam": "lattice", "place": pi, "comb": list(comb)}, P


def _grid_of(faces, scale=None):
    pts, fl = [], []
    for P in faces:
        off = len(pts)
        pts += [tuple(p) for p in P]
        fl.append(tuple(range(off, off + len(P))))
    m = meshes.Mesh("c05", pts, fl, False)
    if scale is None:
        return build.grid(m)
    import uxarray as ux

    lon, lat = m.lonlat()
    X = np.array(pts, dtype=float) * scale
    return ux.Grid.from_topology(lon.copy(), lat.copy(), m.table(), fill_value=build.FILL, node_x=X[:, 0].copy(), node_y=X[:, 1].copy(), node_z=X[:, 2].copy())


def cases(tier):
    out = [{"kind": "tables"}]
    nb = 24
    out += [{"kind": "faces", "block": b, "nblocks": nb, "tier": tier} for b in range(nb)]
    out += [{"kind": "additivity", "block": b, "nblocks": 8, "tier": tier} for b in range(8)]
    for name in (["icosa", "cs2"] if tier == "quick" else ["icosa", "cs2", "cs3"]):
        out.append({"kind": "tiling", "mesh": name})
    return out


def interp_cases(tier):
    """interpreted pass (NUMBA_DISABLE_JIT=1): the quadrature tables and one sparse block of faces"""
    return [{"kind": "tables"}, {"kind": "faces", "block": 0, "nblocks": 300, "tier": "quick"}, {"kind": "tiling", "mesh": "icosa"}]


def selftest_case(tier):
    return {"kind": "faces", "block": 1, "nblocks": 24, "tier": "quick"}


def warmup(tier):
    run_case({"kind": "faces", "block": 0, "nblocks": 600, "tier": "quick"})
    run_case({"kind": "tables"})


def _new():
    return {"violations": [], "evaluations": 0, "transitions": 0, "nontrivial": [], "outcomes": [], "axes": {}, "states": []}


def run_case(case):
    res = _new()
    if case["kind"] == "tables":
        return _tables(case, res)
    if case["kind"] == "faces":
        return _run_faces(case, res)
    if case["kind"] == "additivity":
        return _additivity(case, res)
    return _tiling(case, res)


# ----------------------------------------------------------------------------- quadrature tables
def _tables(case, res):
    from uxarray.grid.area import get_gauss_quadratureDG, get_tri_quadratureDG

    V = res["violations"]
    prev = {}
    for fam, orders in (("gaussian", GAUSS_ORDERS), ("triangular", TRI_ORDERS)):
        last_deg = -1
        for o in orders:
            focus = dict(case, only={"fam": fam, "order": o})
            if "only" in case and case["only"] != focus["only"]:
                continue
            if fam == "gaussian":
                G, W = get_gauss_quadratureDG(o)
                x = np.asarray(G, dtype=float).reshape(-1)
                w = np.asarray(W, dtype=float).reshape(-1)
                deg = -1
                for k in range(0, 25):
                    exact = 1.0 / (k + 1)
                    if abs(float(np.sum(w * x ** k)) - exact) <= 1e-12:
                        deg = k
                    else:
                        break
                expect = 2 * o - 1
            else:
                G, W = get_tri_quadratureDG(o)
                g = np.asarray(G, dtype=float)
                w = np.asarray(W, dtype=float).reshape(-1)
                deg = -1
                for d in range(0, 25):
                    ok = True
                    for a in range(d + 1):
                        b = d - a
                        exact = 2.0 * math.factorial(a) * math.factorial(b) / math.factorial(a + b + 2)
                        if abs(float(np.sum(w * g[:, 0] ** a * g[:, 1] ** b)) - exact) > 1e-12:
                            ok = False
                            break
                    if ok:
                        deg = d
                    else:
                        break
                expect = None
                # symmetric rules: also the third barycentric coordinate
                if g.shape[1] == 3 and not np.allclose(g.sum(axis=1), 1.0, atol=1e-12):
                    V.append({"oracle": "tables", "sig": "c05:table:%s%d:points-not-barycentric" % (fam, o), "msg": "%s order %d: barycentric coordinates do not sum to 1" % (fam, o), "focus": focus})
            res["evaluations"] += 1
            res["transitions"] += 1
            key = digest((fam, o))
            res["states"].append(key)
            res["nontrivial"].append(key)
            res["outcomes"].append("%s%d:deg%d" % (fam, o, deg))
            res["axes"].setdefault("degree_of_exactness", {})["%s%d" % (fam, o)] = deg
            if abs(float(np.sum(w)) - 1.0) > 1e-12 or np.any(w < -1e-15):
                V.append({"oracle": "tables", "sig": "c05:table:%s%d:weights" % (fam, o), "msg": "%s order %d: weights sum to %r / negative weights" % (fam, o, float(np.sum(w))), "focus": focus})
            if deg < 1:
                V.append({"oracle": "tables", "sig": "c05:table:%s%d:exactness" % (fam, o), "msg": "%s order %d integrates polynomials exactly only up to degree %d" % (fam, o, deg), "focus": focus})
            if deg < last_deg:
                V.append({"oracle": "tables", "sig": "c05:table:%s%d:exactness-decreases" % (fam, o), "msg": "%s order %d has degree of exactness %d, the previous order had %d" % (fam, o, deg, last_deg), "focus": focus})
            last_deg = max(last_deg, deg)
    res["sample"] = {"kind": "tables", "degrees": res["axes"].get("degree_of_exactness")}
    return res


# ----------------------------------------------------------------------------- faces
def _run_faces(case, res):
    V = res["violations"]
    tier = case["tier"]
    todo = []
    for i, (d, P) in enumerate(_faces(tier)):
        if i % case["nblocks"] != case["block"]:
            continue
        if "only" in case and d != case["only"].get("face"):
            continue
        if np.dot(np.cross(P[0], P[1]), P[2]) < 0:
            P = P[::-1].copy()
        todo.append((d, P))
    if not todo:
        res["evaluations"] = res["transitions"] = 0
        res["states"] = ["empty"]
        res["sample"] = {"kind": "faces", "n": 0}
        return res
    # every start corner of every face is its own face in one grid
    flat, owner = [], []
    for fi, (d, P) in enumerate(todo):
        for s in range(len(P)):
            flat.append(np.roll(P, -s, axis=0))
            owner.append((fi, s))
    exact = [sph.poly_area(P) for P in flat]
    across = [_across(P) for P in flat]
    pool.fresh()
    g = _grid_of(flat)
    env = {}
    rules = [("triangular", o) for o in TRI_ORDERS] + [("gaussian", o) for o in GAUSS_ORDERS]
    gR = None
    for rule, order in rules:
        for latlon in (True, False, "scaled"):
            if not latlon and (rule, order) != ("triangular", 4) and not (rule == "gaussian" and order == 5):
                continue
            if latlon == "scaled" and (rule, order) != ("triangular", 4) and not (rule == "gaussian" and order == 5):
                continue
            try:
                if latlon == "scaled":
                    # Cartesian corner coordinates that are not on the unit sphere (kilometres): the area is still the unit-sphere area
                    if gR is None:
                        gR = _grid_of(flat, scale=6371.22)
                    a, _ = gR.compute_face_areas(rule, order, latlon=False)
                    latlon = False
                else:
                    a, _ = g.compute_face_areas(rule, order, latlon=latlon)
                a = np.asarray(a, dtype=float)
            except Exception as e:
                V.append({"oracle": "area", "sig": "c05:raises:%s:%s" % ("latlon" if latlon else "xyz", type(e).__name__), "msg": "compute_face_areas(%s, %d, latlon=%s) raised %r" % (rule, order, latlon, e), "focus": dict(case, only={"rule": rule, "order": order, "latlon": latlon})})
                continue
            default = (rule, order) == ("triangular", 4)
            for j, ((fi, s), ex, ac) in enumerate(zip(owner, exact, across)):
                d = todo[fi][0]
                res["evaluations"] += 1
                focus = dict(case, only={"face": d, "start": s, "rule": rule, "order": order, "latlon": latlon})
                rel = abs(a[j] - ex) / ex
                tol = _class_tol(ac)
                key = (rule, order, "le10" if ac <= 10 else "le30" if ac <= 30 else "le65" if ac <= 65 else "gt65")
                if latlon:
                    # convergence envelope: net of the absolute floor of the float64 oracle itself (2e-14 sr), which dominates on faces << 1 degree
                    env[key] = max(env.get(key, 0.0), max(0.0, abs(a[j] - ex) - 2e-14) / ex)
                if not (a[j] >= 0.0):
                    V.append({"oracle": "area", "sig": "c05:negative-area", "msg": "face %s start %d: area %r with %s %d" % (d, s, a[j], rule, order), "focus": focus})
                    continue
                if default and tol is not None and rel > tol:
                    V.append({"oracle": "area", "sig": "c05:default-rule-accuracy:%s:%s" % (key[2], "latlon" if latlon else "xyz-input"), "msg": "face %s (%.1f deg across) start corner %d, latlon=%s: default-rule area %.12g, spherical excess %.12g, relative error %.3g > %g" % (d, ac, s, latlon, a[j], ex, rel, tol), "focus": focus})
                elif not default and not latlon and tol is not None and rel > tol:
                    V.append({"oracle": "area", "sig": "c05:xyz-input-differs:%s" % key[2], "msg": "face %s start %d: area from Cartesian input %.12g vs exact %.12g (rel %.3g) with %s %d" % (d, s, a[j], ex, rel, rule, order), "focus": focus})
            # start-corner invariance: all rotations of one face agree within the accuracy bound
            if latlon and order >= 4:  # rules at least as fine as the default: coarser ones differ by their own quadrature error
                by_face = {}
                for j, (fi, s) in enumerate(owner):
                    by_face.setdefault(fi, []).append(j)
                for fi, js in by_face.items():
                    vals = a[js]
                    tol = _class_tol(across[js[0]]) or 1e-2
                    if (vals.max() - vals.min()) / exact[js[0]] > 2 * tol:
                        V.append({"oracle": "area", "sig": "c05:start-corner-dependence:%s%d" % (rule, order), "msg": "face %s: areas over its start corners range %.12g..%.12g (exact %.12g) with %s %d" % (todo[fi][0], vals.min(), vals.max(), exact[js[0]], rule, order), "focus": dict(case, only={"face": todo[fi][0], "rule": rule, "order": order})})
        res["transitions"] += 1
    # convergence envelopes
    for fam, orders in (("triangular", TRI_ORDERS), ("gaussian", GAUSS_ORDERS)):
        for cls in ("le10", "le30", "le65"):
            seq = [env.get((fam, o, cls)) for o in orders]
            if any(x is None for x in seq):
                continue
            if cls in ("le10", "le30") and seq[-1] > 1e-10:
                V.append({"oracle": "convergence", "sig": "c05:highest-order-not-exact:%s:%s" % (fam, cls), "msg": "%s order %d: worst relative error %.3g on faces %s" % (fam, orders[-1], seq[-1], cls), "focus": dict(case, only={"fam": fam, "cls": cls})})
            for k in range(1, len(seq)):
                if seq[k] > 1.5 * seq[k - 1] + 1e-12:
                    V.append({"oracle": "convergence", "sig": "c05:error-grows-with-order:%s%d:%s" % (fam, orders[k], cls), "msg": "%s: worst relative error %.3g at order %d but %.3g at order %d (faces %s)" % (fam, seq[k], orders[k], seq[k - 1], orders[k - 1], cls), "focus": dict(case, only={"fam": fam, "cls": cls, "order": orders[k]})})
            res["axes"].setdefault("error_envelope", {})["%s:%s" % (fam, cls)] = max(seq)
    # cached face_areas equals a fresh default computation (after all the other-argument calls above)
    try:
        cached = np.asarray(g.face_areas.values, dtype=float)
        fresh, _ = _grid_of(flat).compute_face_areas()
        if not np.array_equal(cached, np.asarray(fresh, dtype=float)):
            V.append({"oracle": "cache", "sig": "c05:cached-face_areas-differs", "msg": "face_areas read after calls with other arguments differs from a fresh default computation", "focus": dict(case, only={"cache": True})})
    except Exception as e:
        V.append({"oracle": "cache", "sig": "c05:face_areas-raises:%s" % type(e).__name__, "msg": repr(e), "focus": dict(case, only={"cache": True})})
    for (d, P) in todo:
        key = digest(d)
        res["states"].append(key)
        if len(P) >= 4 or d.get("c", 99) < 5:
            res["nontrivial"].append(key)
    res["outcomes"].append(digest(sorted((str(k), round(v, 14)) for k, v in env.items())))
    res["sample"] = {"kind": "faces", "block": case["block"], "faces": len(todo), "with_start_corners": len(flat)}
    return res


def _additivity(case, res):
    V = res["violations"]
    tier = case["tier"]
    for i, (d, P) in enumerate(_faces(tier)):
        if i % 5 != 0 or (i // 5) % case["nblocks"] != case["block"] or len(P) < 4:
            continue
        if "only" in case and d != case["only"]:
            continue
        if np.dot(np.cross(P[0], P[1]), P[2]) < 0:
            P = P[::-1].copy()
        k = len(P)
        parts_sets = []
        for a_ in range(k):
            for b_ in range(a_ + 2, k):
                if a_ == 0 and b_ == k - 1:
                    continue
                parts_sets.append(("diag%d-%d" % (a_, b_), [P[a_: b_ + 1], np.vstack([P[b_:], P[: a_ + 1]])]))
        c = sph.unit(P.mean(axis=0))
        parts_sets.append(("fan", [np.array([P[j], P[(j + 1) % k], c]) for j in range(k)]))
        allf = [P] + [q for _, ps in parts_sets for q in ps]
        pool.fresh()
        g = _grid_of(allf)
        a, _ = g.compute_face_areas()
        a = np.asarray(a, dtype=float)
        tolw = _class_tol(_across(P)) or 1e-2
        pos = 1
        for name, ps in parts_sets:
            s = float(a[pos: pos + len(ps)].sum())
            pos += len(ps)
            res["evaluations"] += 1
            bound = tolw * a[0] + sum(((_class_tol(_across(q)) or 1e-2) * sph.poly_area(q)) for q in ps)
            if abs(a[0] - s) > bound:
                V.append({"oracle": "additivity", "sig": "c05:not-additive:%s" % name.split("-")[0].rstrip("0123456789"), "msg": "face %s: area %.12g but its %s pieces sum to %.12g (allowed %.3g)" % (d, a[0], name, s, bound), "focus": dict(case, only=d)})
        res["transitions"] += 1
        key = digest(("add", d))
        res["states"].append(key)
        res["nontrivial"].append(key)
    res["outcomes"].append(digest(("add", case["block"], len(V))))
    res["sample"] = {"kind": "additivity", "block": case["block"]}
    return res


def _tiling(case, res):
    V = res["violations"]
    base = meshes.get(case["mesh"])
    worst = max(_across(np.array([base.points[i] for i in f])) for f in base.faces)
    tol = _class_tol(worst) or 1e-1
    ref = None
    for dv, m in meshes.deviations(base, 1, relabel_cap=6):
        if "forder" in dv and dv["forder"] != list(range(m.n_face))[::-1] and sum(dv["forder"][:3]) % 5:
            continue
        if "start" in dv and (dv["start"][0] % 4 or dv["start"][1] != 1):
            continue
        pool.fresh()
        g = build.grid(m)
        for latlon in (True,):
            tot = float(g.calculate_total_face_area())
            res["evaluations"] += 1
            if abs(tot - 4 * math.pi) / (4 * math.pi) > tol:
                V.append({"oracle": "tiling", "sig": "c05:tiling-total", "msg": "%s %s: total area %.12g, 4 pi = %.12g (faces up to %.1f deg across, allowed rel %g)" % (case["mesh"], dv, tot, 4 * math.pi, worst, tol), "focus": dict(case, only=dv)})
            areas = np.sort(np.asarray(g.face_areas.values, dtype=float))
            if ref is None:
                ref = areas
            elif not np.allclose(areas, ref, rtol=2 * tol, atol=0):
                V.append({"oracle": "tiling", "sig": "c05:numbering-dependence", "msg": "%s: the multiset of face areas changes under renumbering %s" % (case["mesh"], dv), "focus": dict(case, only=dv)})
        res["transitions"] += 1
        key = digest((case["mesh"], dv))
        res["states"].append(key)
        res["nontrivial"].append(key)
    res["outcomes"].append(digest(np.round(ref, 10)))
    res["sample"] = {"kind": "tiling", "mesh": case["mesh"], "across": worst}
    return res


def run(ctx):
    ctx.map(run_case, cases(ctx.tier))
