"""C04 -- Spherical and Cartesian coordinates always denote the same points.

Explorers G + H: grids x provenance vector (which of lon/lat / xyz the source supplies for nodes, face centres and
edge centres; 0..360 longitudes; non-unit radius) with deviation bounding x every order of first access (depth 2)
of the 15 coordinate properties, with normalize_cartesian_coordinates() inserted at every position; after the
prefix all 15 properties are read and compared with an independent conversion.
"""

import itertools
import math

import numpy as np

from vf.alpha import build, meshes
from vf.core import pool
from vf.core.state import digest
from vf.oracle import conn, sph

ID = "C04"
RULE = (
    "grids {mixed patch, antimeridian strip with nodes on +-180, fan with a node exactly on the south pole, patch with nodes on lon 0 and 1e-9 / 1e-6 degrees from "
    "the north pole, cube} x provenance axes {nodes: lonlat | xyz | both} x {face centres: none | lonlat | xyz | both} x {edge centres: none | lonlat | xyz | both} x "
    "{longitudes -180..180 | 0..360} x {radius 1 | 6371 | integer-typed xyz} with <= k deviations from the default vector x every ordered pair of first accesses among the 15 coordinate "
    "properties (plus 10 prefixes containing the public recomputation construct_face_centers('cartesian average'), after which, for sources that supplied centres, only the agreement of the two systems, ranges and unit length after normalisation are judged for faces) x normalize_cartesian_coordinates() at position {never, first, between, last}. non-trivial = provenance vector with >= 1 deviation or a node at a "
    "pole / on a meridian of interest; distinct = (grid, provenance, access prefix, normalize position)"
)
ASSUMPTIONS = [
    "independent conversion: x=cos(lat)cos(lon), y=cos(lat)sin(lon), z=sin(lat) (numpy); positions are compared as directions: the angle between the lon/lat "
    "direction and the xyz direction must be <= 1e-9 rad, or <= 3e-8 rad for points within the library's documented 1e-8 pole-snapping cap",
    "supplied centres are compared with what was supplied, derived centres with the normalised mean of the corner unit vectors (edge centre: arc midpoint)",
    "derived Cartesian coordinates must have unit length (1e-12); after normalize_cartesian_coordinates() all Cartesian coordinates have unit length and unchanged direction (1e-12)",
]
BOUNDS = {"quick": "6 grids (the axis-aligned cube also with integer-typed xyz), provenance deviations <= 2 (57 vectors), access prefixes: all 15 singles + 40 pairs, normalize at 4 positions", "thorough": "8 grids (also a polar cap with nodes 0.2 degrees from the south pole and a kilometre-scale patch across the antimeridian), provenance deviations <= 3, all 225 ordered pairs"}
PROPS = ["node_lon", "node_lat", "node_x", "node_y", "node_z", "edge_lon", "edge_lat", "edge_x", "edge_y", "edge_z", "face_lon", "face_lat", "face_x", "face_y", "face_z"]
AXES = [("nodes", ["lonlat", "xyz", "both"]), ("faces", ["none", "lonlat", "xyz", "both"]), ("edges", ["none", "lonlat", "xyz", "both"]), ("lon", ["pm180", "0-360"]), ("radius", [1.0, 6371.0, "int"])]  # int: Cartesian node coordinates stored as integers (axis-aligned cube only: (+-1, +-1, +-1))


def _near_pole_patch():
    ll = [(0.0, 89.0), (90.0, 89.999999), (180.0, 89.0), (-90.0, 89.999999999), (0.0, 80.0), (120.0, 80.0), (-120.0, 80.0)]
    pts = [meshes.lonlat_to_xyz(a, b) for a, b in ll]
    faces = [meshes.orient_ccw(pts, f) for f in [(0, 4, 5), (2, 5, 6), (0, 6, 4), (0, 1, 2, 3)]]
    return meshes.Mesh("nearpole", pts, faces, False)


def _mesh(name):
    if name == "intcube":
        # axis-aligned cube: nodes are (+-1, +-1, +-1)/sqrt(3), i.e. exact small-integer vectors of equal length
        return meshes.cube().transform(meshes.rot_axis((0, 0, 1), -10.0), "intcube")
    return _near_pole_patch() if name == "nearpole" else meshes.get(name)


GRIDS = ["mixedpatch", "amstrip", "polefan", "nearpole", "cube", "intcube"]


def _vectors(k):
    default = tuple(a[1][0] for a in AXES)
    out = [default]
    idx = range(len(AXES))
    for r in range(1, k + 1):
        for which in itertools.combinations(idx, r):
            for vals in itertools.product(*[AXES[i][1][1:] for i in which]):
                v = list(default)
                for i, x in zip(which, vals):
                    v[i] = x
                out.append(tuple(v))
    return out


def _source(m, vec):
    """build the Grid and remember what was supplied"""
    import uxarray as ux
    import xarray as xr

    nodes, fcs, ecs, lonc, radius = vec
    lon, lat = m.lonlat()
    # the positions the source describes are those of the (lon, lat) doubles it supplies (asin near a pole loses
    # 1e-8 rad, so the mesh's own vectors are not used as the reference)
    P = sph.ll2xyz(lon, lat)
    intmode = radius == "int"
    if intmode:
        # integer-typed Cartesian coordinates: only meaningful where xyz alone describes the position
        # (and only for meshes whose nodes are exact small-integer vectors of EQUAL length, e.g. the cube's (+-1, +-1, +-1):
        # rounding arbitrary positions to integers would give corners of different lengths, for which "mean of the corner unit
        # vectors" and the library's mean of the raw vectors legitimately differ -- not this property's domain)
        if nodes != "xyz" or fcs in ("xyz", "both") or ecs in ("xyz", "both"):
            return None
        k = 1.0 / float(np.abs(P).max())
        if np.abs(P * k - np.rint(P * k)).max() > 1e-9:
            return None
        Pint = np.rint(P * k).astype(np.int64)
        P = sph.unit(Pint.astype(float))
        radius = 1.0
    if lonc == "0-360":
        lon = lon % 360.0
    E = conn.edge_model(m.faces)
    keys = sorted(E, key=lambda k: sorted(k))
    en = np.array([sorted(k) for k in keys], dtype=np.intp)
    # centres the "file" supplies: displaced from the mean so that recomputation is visible
    fc = np.array([sph.unit(0.7 * sph.unit(P[list(f)].mean(axis=0)) + 0.3 * P[f[0]]) for f in m.faces])
    ec = np.array([sph.unit(0.6 * P[a] + 0.4 * P[b]) for a, b in en])
    ds = xr.Dataset()
    sup = {}
    if nodes in ("lonlat", "both"):
        ds["node_lon"] = (("n_node",), lon.copy())
        ds["node_lat"] = (("n_node",), lat.copy())
    if nodes in ("xyz", "both"):
        for i, c in enumerate("xyz"):
            ds["node_" + c] = (("n_node",), Pint[:, i].copy() if intmode else P[:, i] * radius)
    ds["face_node_connectivity"] = (("n_face", "n_max_face_nodes"), m.table())
    sup["node"] = P
    if fcs != "none":
        flon, flat = sph.xyz2ll(fc)
        if lonc == "0-360":
            flon = flon % 360.0
        if fcs in ("lonlat", "both"):
            ds["face_lon"] = (("n_face",), flon)
            ds["face_lat"] = (("n_face",), flat)
        if fcs in ("xyz", "both"):
            if intmode:
                fci = np.rint(fc * 1000.0).astype(np.int64)
                fc = sph.unit(fci.astype(float))
            for i, c in enumerate("xyz"):
                ds["face_" + c] = (("n_face",), fci[:, i].copy() if intmode else fc[:, i] * radius)
        sup["face"] = fc
    if ecs != "none":
        ds["edge_node_connectivity"] = (("n_edge", "two"), en)
        elon, elat = sph.xyz2ll(ec)
        if lonc == "0-360":
            elon = elon % 360.0
        if ecs in ("lonlat", "both"):
            ds["edge_lon"] = (("n_edge",), elon)
            ds["edge_lat"] = (("n_edge",), elat)
        if ecs in ("xyz", "both"):
            if intmode:
                eci = np.rint(ec * 1000.0).astype(np.int64)
                ec = sph.unit(eci.astype(float))
            for i, c in enumerate("xyz"):
                ds["edge_" + c] = (("n_edge",), eci[:, i].copy() if intmode else ec[:, i] * radius)
        sup["edge"] = ec
    g = ux.Grid.from_dataset(ds, source_grid_spec="UGRID")
    return g, sup, P


def _pole_cap(p):
    return abs(abs(p[..., 2]) / np.linalg.norm(p, axis=-1)) > 1.0 - 3e-8


def judge(g, m, vec, sup, P, normalized, bad, face_position=True):
    """read all 15 properties and compare"""
    nodes, fcs, ecs, lonc, radius = vec
    vals = {}
    for p in PROPS:
        try:
            vals[p] = np.asarray(getattr(g, p).values, dtype=float)
        except Exception as e:
            bad("c04:raises:%s:%s" % (p, type(e).__name__), "%s raised %r" % (p, e))
            return
    en = np.asarray(g.edge_node_connectivity.values)
    want = {
        "node": P,
        "face": sup.get("face", np.array([sph.unit(P[list(f)].mean(axis=0)) for f in m.faces])),
        "edge": sup.get("edge", sph.unit(P[en[:, 0]] + P[en[:, 1]]) if en.size else np.zeros((0, 3))),
    }
    supplied_xyz = {"node": nodes in ("xyz", "both"), "face": fcs in ("xyz", "both"), "edge": ecs in ("xyz", "both")}
    for kind in ("node", "face", "edge"):
        lon, lat = vals[kind + "_lon"], vals[kind + "_lat"]
        xyz = np.stack([vals[kind + "_x"], vals[kind + "_y"], vals[kind + "_z"]], axis=-1)
        W = want[kind]
        if lon.shape != (len(W),) or xyz.shape != (len(W), 3):
            bad("c04:shape:%s" % kind, "%s coordinates have shapes %s / %s for %d elements" % (kind, lon.shape, xyz.shape, len(W)))
            continue
        if lon.size and (lon.min() < -180.0 - 1e-12 or lon.max() > 180.0 + 1e-12):
            bad("c04:lon-range:%s" % kind, "%s_lon outside [-180, 180]: min %.6f max %.6f" % (kind, lon.min(), lon.max()))
        if lat.size and (lat.min() < -90.0 - 1e-12 or lat.max() > 90.0 + 1e-12):
            bad("c04:lat-range:%s" % kind, "%s_lat outside [-90, 90]" % kind)
        if not (np.all(np.isfinite(lon)) and np.all(np.isfinite(lat)) and np.all(np.isfinite(xyz))):
            bad("c04:non-finite:%s" % kind, "%s coordinates contain NaN/inf" % kind)
            continue
        D = sph.ll2xyz(lon, lat)
        nrm = np.linalg.norm(xyz, axis=1)
        if np.any(nrm < 1e-12):
            bad("c04:zero-vector:%s" % kind, "%s xyz contains a zero vector" % kind)
            continue
        X = xyz / nrm[:, None]
        cap = _pole_cap(W) | _pole_cap(X)  # the reported point itself may be the one inside the snapping cap (recomputed centres)
        tol = np.where(cap, 3e-8, 1e-9)
        a1 = sph.angle(D, X)
        if np.any(a1 > tol):
            i = int(np.argmax(a1 - tol))
            bad("c04:lonlat-vs-xyz:%s" % kind, "%s %d: (lon,lat)=(%.9f,%.9f) and (x,y,z)=%s differ by %.3g rad" % (kind, i, lon[i], lat[i], np.round(xyz[i], 9).tolist(), a1[i]))
        a2 = sph.angle(D, W) if (face_position or kind != "face") else np.zeros(len(W))
        if np.any(a2 > tol):
            i = int(np.argmax(a2 - tol))
            bad("c04:position:%s:%s" % (kind, "supplied" if kind in sup and kind != "node" else ("source" if kind == "node" else "derived")), "%s %d: reported (lon,lat)=(%.9f,%.9f), %s position (lon,lat)=(%.9f,%.9f) (%.3g rad apart)" % (kind, i, lon[i], lat[i], "supplied" if kind in sup else "expected", *[float(v) for v in sph.xyz2ll(W[i])], a2[i]))
        must_unit = normalized or (not supplied_xyz[kind] and (face_position or kind != "face"))
        if must_unit and np.any(np.abs(nrm - 1.0) > 1e-12):
            i = int(np.argmax(np.abs(nrm - 1.0)))
            bad("c04:not-unit:%s:%s" % (kind, "after-normalize" if normalized else "derived"), "%s %d: |xyz| = %.15g" % (kind, i, nrm[i]))


def cases(tier):
    k = 2 if tier == "quick" else 3
    out = []
    for gname in GRIDS + (["polarcap2s", "finequads-am"] if tier == "thorough" else []):
        vs = _vectors(k)
        step = 6 if tier == "quick" else 8
        for i0 in range(0, len(vs), step):
            out.append({"grid": gname, "k": k, "vecs": [i0, min(len(vs), i0 + step)], "tier": tier})
    return out


def interp_cases(tier):
    """interpreted pass (NUMBA_DISABLE_JIT=1): a few provenance vectors on the pole fan and the antimeridian strip"""
    return [{"grid": "polefan", "k": 1, "vecs": [0, 4], "tier": "quick"}, {"grid": "amstrip", "k": 1, "vecs": [4, 8], "tier": "quick"}]


def selftest_case(tier):
    return {"grid": "amstrip", "k": 2, "vecs": [0, 2], "tier": "quick"}


def warmup(tier):
    run_case({"grid": "polefan", "k": 2, "vecs": [0, 1], "tier": "quick"})
    run_case({"grid": "mixedpatch", "k": 2, "vecs": [30, 31], "tier": "quick"})


RECOMP = "construct_face_centers(cartesian average)"


def _prefixes(tier):
    out = [()] + [(p,) for p in PROPS]
    pairs = list(itertools.permutations(PROPS, 2))
    if tier == "quick":
        pairs = [pr for i, pr in enumerate(pairs) if i % 5 == 0]
    # the public recomputation of the face centres (from then on they are derived: the corner mean, in both systems)
    rec = [(RECOMP,)] + [(RECOMP, p) for p in ("face_lon", "face_x", "face_z", "node_x")] + [(p, RECOMP) for p in ("face_lon", "face_lat", "face_x", "node_x", "edge_x")]
    return out + pairs + rec


def run_case(case):
    res = {"violations": [], "evaluations": 0, "transitions": 0, "nontrivial": [], "outcomes": [], "axes": {}, "states": []}
    V = res["violations"]
    m = _mesh(case["grid"])
    vs = _vectors(case["k"])[case["vecs"][0]: case["vecs"][1]]
    default = _vectors(0)[0]
    prefixes = _prefixes(case["tier"])
    for vec in vs:
        for prefix in prefixes:
            for npos in ("never", "first", "between", "last"):
                if npos == "between" and len(prefix) < 2:
                    continue
                foc = {"vec": list(vec), "prefix": list(prefix), "normalize": npos}
                if "only" in case and foc != case["only"]:
                    continue
                focus = dict(case, only=foc)

                def bad(sig, msg, foc=foc, focus=focus, vec=vec):
                    prov = "nodes=%s,faces=%s,edges=%s,lon=%s,r=%s" % vec
                    V.append({"oracle": "coords", "sig": sig, "msg": "grid %s [%s], first accesses %s, normalize %s: %s" % (case["grid"], prov, list(foc["prefix"]), foc["normalize"], msg), "focus": focus})

                pool.fresh()
                try:
                    src = _source(m, vec)
                    if src is None:
                        continue  # provenance combination without meaning (integer xyz next to lon/lat of the same element)
                    g, sup, P = src
                except Exception as e:
                    bad("c04:construct-raises:%s" % type(e).__name__, repr(e))
                    continue
                res["evaluations"] += 1
                res["transitions"] += len(prefix) + 15
                try:
                    if npos == "first":
                        g.normalize_cartesian_coordinates()
                    for i, p in enumerate(prefix):
                        if p == RECOMP:
                            g.construct_face_centers("cartesian average")
                        else:
                            getattr(g, p)
                        if npos == "between" and i == 0:
                            g.normalize_cartesian_coordinates()
                    if npos == "last":
                        g.normalize_cartesian_coordinates()
                except Exception as e:
                    bad("c04:prefix-raises:%s" % type(e).__name__, "%r" % (e,))
                    continue
                normalized = False
                if npos == "last":
                    normalized = True
                # after the public recomputation the statement fixes only what it fixes for every grid: both systems denote the same
                # point, ranges, finiteness.  WHICH point (supplied centre kept, or corner mean) is not the statement's business when
                # the source supplied centres; for sources without centres nothing changes (derived = corner mean)
                # once normalize_cartesian_coordinates() has been called (at whatever position), every Cartesian coordinate must have unit
                # length from then on: the supplied ones were present when it ran, the ones derived later are unit by construction
                judge(g, m, vec, sup, P, npos != "never", bad, face_position=not (RECOMP in prefix and "face" in sup))
                if npos != "never":
                    # a final normalisation: every Cartesian coordinate present must now have unit length, directions unchanged
                    try:
                        g.normalize_cartesian_coordinates()
                        judge(g, m, vec, sup, P, True, bad, face_position=not (RECOMP in prefix and "face" in sup))
                    except Exception as e:
                        bad("c04:normalize-raises:%s" % type(e).__name__, repr(e))
                key = digest((case["grid"], foc))
                res["states"].append(key)
                if vec != default or case["grid"] in ("polefan", "nearpole", "amstrip"):
                    res["nontrivial"].append(key)
        res["outcomes"].append(digest((case["grid"], vec, len(V))))
    res["axes"] = {"grid": {case["grid"]: res["evaluations"]}, "provenance_deviations": {str(sum(1 for a, b in zip(v, default) if a != b)): 1 for v in vs}}
    res["sample"] = {"grid": case["grid"], "vectors": [list(v) for v in vs[:2]], "prefixes": len(prefixes)}
    return res


def run(ctx):
    ctx.map(run_case, cases(ctx.tier))
