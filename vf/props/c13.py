"""C13 -- Face latitude-longitude bounds enclose the face and are tight.

Explorer G: convex faces from finite families (regular n-gons over a menu of radii, centres and phases; all convex
triangles/quads on a non-aligned lattice patch, placed in both hemispheres and across both meridians; faces with a
corner at a pole; faces enclosing a pole off-centre), every start corner; Grid.bounds compared with a closed-form
oracle (per-edge apex latitude with an explicit interior test, pole enclosure by orientation signs, longitude
interval = complement of the largest gap between boundary longitudes).
"""

import itertools
import math

import numpy as np

from vf.alpha import build, meshes
from vf.core import pool
from vf.core.state import digest
from vf.oracle import sph

ID = "C13"
RULE = (
    "faces: regular n-gons n=3..8 x angular radius {2, 10, 30, 44} deg x 20 centres (on/near both poles, enclosing a pole off-centre, straddling lon 0 and lon 180, "
    "generic) x 3 phases; all convex triangles and quads with corners on a non-aligned 4x4 lattice patch (distinct latitudes) placed in both hemispheres and across "
    "both meridians; faces with a corner exactly on lon 0 / lon 180 / the equator that straddle that meridian (incl. pole-enclosing ones); n-gons with one corner exactly at a pole; each under every start corner (counter-clockwise). non-trivial = face with an edge whose extreme "
    "latitude lies strictly inside the edge, a pole inside/at a corner, or a wrap-around longitude interval; distinct = face geometry x start corner"
)
ASSUMPTIONS = [
    "faces with a corner inside the library's pole-snapping cap (1 - |z| < 1e-8: closer than 0.9 km to a pole without being on it) are not generated: the library reports such corners at longitude 0 by documented tolerance",
    "faces are convex, counter-clockwise, edges < 180 degrees, longitude extent < 180 degrees unless a pole is enclosed; a face is generated only if every decision "
    "(apex inside an edge, pole inside the face) has a margin of at least 1e-7 from its boundary",
    "oracle: per edge the extreme latitude is asin(+-sqrt(1-n_z^2)) iff the apex of the great circle lies inside the edge, else the endpoint value; enclosed pole => "
    "that pole's latitude and the full longitude circle; longitude interval = complement of the largest gap between corner longitudes (great-circle edges that do not "
    "touch a pole are monotone in longitude)",
    "enclosure is checked at 1e-9 rad, tightness at 1e-8 rad; longitudes are compared modulo 2 pi",
]
BOUNDS = {"quick": "n-gons: radii {2,10,30,44} x 20 centres x 1 phase; lattice faces on 2 placements; large triangles (edges up to ~150 degrees) from a 5x5 coarse lattice, index sum = 0 mod 3, on 2 placements; all start corners", "thorough": "n-gons: 7 radii x 20 centres x 3 phases; every 3-/4-subset and every convex 5-subset of the 4x4 lattice on 6 placements; all start corners; every large convex triangle and every 5th convex quad of the coarse lattice"}
MARG = 1e-7
CENTRES = [
    (0.0, 90.0), (0.0, -90.0), (30.0, 89.0), (-100.0, -88.5), (77.0, 75.0), (-20.0, -70.0),  # near / on poles (small radii: near; large radii: enclosing, off-centre)
    (0.3, 10.0), (-0.4, -35.0), (179.7, 20.0), (-179.5, -5.0), (180.0, 0.0), (0.0, 0.0),        # straddling the prime meridian / antimeridian
    (45.0, 45.0), (-120.0, 30.0), (100.0, -50.0), (10.0, 60.0), (-60.0, -20.0), (150.0, 5.0), (-150.0, 65.0), (61.0, -61.0),
]


def _ngon(n, radius_deg, centre, phase):
    r = math.radians(radius_deg)
    pts = []
    for i in range(n):
        a = phase + 2 * math.pi * i / n
        pts.append([math.sin(r) * math.cos(a), math.sin(r) * math.sin(a), math.cos(r)])
    P = np.array(pts)
    # rotate north pole -> centre
    lon, lat = math.radians(centre[0]), math.radians(centre[1])
    Ry = meshes.rot_axis((0, 1, 0), 90.0 - centre[1])
    Rz = meshes.rot_axis((0, 0, 1), centre[0])
    return (Rz @ Ry @ P.T).T


def _oracle(P):
    """P: (k,3) ccw unit vectors.  Returns dict(lat_min, lat_max, lon_start, lon_width, full_lon, ok, tags) or None if not admissible."""
    k = len(P)
    z = np.array([0.0, 0.0, 1.0])
    tags = set()
    lat_cands_max, lat_cands_min = [], []
    pole_corner = [abs(abs(p[2]) - 1.0) < 1e-15 for p in P]
    # corners inside the library's pole-snapping cap (1 - |z| < 1e-8, i.e. within 0.9 km of a pole) but not on the pole: their
    # longitude is reported as 0 by documented tolerance (C04's statement names it); such faces are not judged
    if any((1.0 - abs(p[2]) < 1.5e-8) and not pc for p, pc in zip(P, pole_corner)):
        return None
    # convexity / orientation
    for i in range(k):
        a, b, c = P[i], P[(i + 1) % k], P[(i + 2) % k]
        if np.dot(np.cross(a, b), c) < 1e-9:
            return None
    # pole enclosure
    # margins are ANGLES (unit normals): the pole lies more than MARG rad inside every edge's great circle -- scale-free, so that
    # kilometre-sized polar caps are judged too
    def _nhat(a, b):
        n = np.cross(a, b)
        return n / max(np.linalg.norm(n), 1e-300)

    north_in = all(np.dot(_nhat(P[i], P[(i + 1) % k]), z) > MARG for i in range(k))
    south_in = all(np.dot(_nhat(P[i], P[(i + 1) % k]), -z) > MARG for i in range(k))
    for i in range(k):
        a, b = P[i], P[(i + 1) % k]
        n = _nhat(a, b)
        s = float(np.dot(n, z))
        if abs(s) < MARG and not (pole_corner[i] or pole_corner[(i + 1) % k]):
            # the edge's great circle passes (nearly) through the poles: inadmissible only if a pole lies on the arc itself
            for pole in (z, -z):
                if np.dot(np.cross(a, pole), n) > -MARG and np.dot(np.cross(pole, b), n) > -MARG:
                    return None
    for i in range(k):
        a, b = P[i], P[(i + 1) % k]
        n = np.cross(a, b)
        nn = np.linalg.norm(n)
        if nn < 1e-6 or np.dot(a, b) < -0.999:
            return None
        nh = n / nn
        for sign, store in ((1.0, lat_cands_max), (-1.0, lat_cands_min)):
            store += [math.asin(max(-1, min(1, a[2]))), math.asin(max(-1, min(1, b[2])))]
            t = sign * (z - np.dot(z, nh) * nh)
            tn = np.linalg.norm(t)
            if tn < 1e-9:
                continue  # equatorial circle... (n parallel to z): latitude constant
            t /= tn
            m = min(float(np.dot(np.cross(a, t), nh)), float(np.dot(np.cross(t, b), nh)))
            if abs(m) < MARG:
                return None
            if m > 0:  # t lies strictly inside the minor arc a..b (both partial angles in (0, pi) and the edge is shorter than pi)
                store.append(sign * math.asin(math.sqrt(max(0.0, 1.0 - nh[2] ** 2))))
                tags.add("apex-inside-edge")
    lat_max = max(lat_cands_max)
    lat_min = min(lat_cands_min)
    if north_in:
        lat_max = math.pi / 2
        tags.add("north-pole-inside")
    if south_in:
        lat_min = -math.pi / 2
        tags.add("south-pole-inside")
    if any(pole_corner):
        tags.add("pole-corner")
    if north_in or south_in:
        return {"lat": (lat_min, lat_max), "full_lon": True, "tags": tags}
    lons = sorted(math.atan2(p[1], p[0]) % (2 * math.pi) for p, pc in zip(P, pole_corner) if not pc)
    gaps = [((lons[(i + 1) % len(lons)] - lons[i]) % (2 * math.pi), i) for i in range(len(lons))]
    if len(lons) == 1:
        return None
    g, gi = max(gaps)
    second = sorted(gaps)[-2][0] if len(gaps) > 1 else 0.0
    if g - second < 1e-6 and len(lons) > 2:
        return None  # ambiguous minimal interval
    width = 2 * math.pi - g
    if width >= math.pi - 1e-6:
        return None  # longitude extent must stay below 180 degrees
    start = lons[(gi + 1) % len(lons)]
    if start + width > 2 * math.pi:
        tags.add("wraps-through-0")
    return {"lat": (lat_min, lat_max), "full_lon": False, "lon": (start, width), "tags": tags}


def _faces(tier):
    """yields (descr, P)"""
    phases = [0.13] if tier == "quick" else [0.13, 0.9, 2.3]
    for n in range(3, 9):
        for rad in ((2.0, 10.0, 30.0, 44.0) if tier == "quick" else (0.5, 2.0, 5.0, 10.0, 20.0, 30.0, 44.0)):
            for ci, c in enumerate(CENTRES):
                for ph in phases:
                    yield {"fam": "ngon", "n": n, "r": rad, "c": ci, "ph": ph}, _ngon(n, rad, c, ph)
    # kilometre-scale faces (absolute tolerances in the code show at this scale)
    for n in (3, 4, 6):
        for ci in (2, 4, 6, 8, 9, 11):
            yield {"fam": "tiny", "n": n, "c": ci}, _ngon(n, 0.003, CENTRES[ci], 0.4)
    # small pole-enclosing faces: corners 1.5 .. 110 km from the pole they enclose (centred on it and off-centre); closer than 0.9 km
    # a corner is inside the library's documented pole-snapping cap (1 - |z| < 1e-8), see _oracle
    for sgn in (1.0, -1.0):
        for rad in (0.02, 0.05, 0.115, 1.0):
            for n in (3, 4, 6):
                yield {"fam": "polar-small", "sgn": sgn, "r": rad, "n": n, "off": False}, _ngon(n, rad, (0.0, sgn * 90.0), 0.3)
                yield {"fam": "polar-small", "sgn": sgn, "r": rad, "n": n, "off": True}, _ngon(n, rad, (40.0, sgn * (90.0 - 0.3 * rad)), 0.3)
    # lattice faces: corners on a non-aligned patch (distinct latitudes/longitudes)
    base = [(3.0 * i + 0.37 * j + 0.11 * i * j, 2.5 * j + 0.41 * i + 0.07 * j * j) for i in range(4) for j in range(4)]
    places = [(20.0, 30.0), (-178.0, -40.0)] if tier == "quick" else [(20.0, 30.0), (-178.0, -40.0), (-4.0, 60.0), (175.0, 5.0), (100.0, -75.0), (-60.0, 80.0)]
    for pi, (lo, la) in enumerate(places):
        pts = [meshes.lonlat_to_xyz(lo + a, la + b if la + b < 89 else 89.0 - 0.01 * a) for a, b in base]
        for k in ((3, 4) if tier == "quick" else (3, 4, 5)):
            for comb in itertools.combinations(range(16), k):
                if k == 4 and (comb[0] + comb[1] + comb[2] + comb[3]) % (3 if tier == "quick" else 1) != 0:
                    continue
                P = np.array([pts[i] for i in comb])
                c = sph.unit(P.mean(axis=0))
                ang = np.arctan2(np.dot(P, np.cross(c, [0, 0, 1.0])), np.dot(P, np.cross(np.cross(c, [0, 0, 1.0]), c)))
                P = P[np.argsort(-ang)]
                if k == 5 and not all(np.dot(np.cross(P[i], P[(i + 1) % k]), P[(i + 2) % k]) > 1e-9 for i in range(k)):
                    continue  # pentagons: convex ones only (3-/4-subsets are kept as before)
                yield {"fam": "lattice", "place": pi, "comb": list(comb)}, P
    # large faces: corners on a coarse lon/lat lattice spanning 140 degrees of longitude and both hemispheres (edges up to ~150 degrees,
    # equator-crossing edges whose apex lies inside the edge), centred away from the prime meridian and across the antimeridian
    big = [(-70.0 + 35.0 * i + 1.3 * j, (-50.0, -20.0, 5.0, 30.0, 60.0)[j] + 0.7 * i) for i in range(5) for j in range(5)]
    for pi, lon0 in enumerate((95.0, 178.0)):
        pts = [meshes.lonlat_to_xyz(lon0 + a, b) for a, b in big]
        for k in ((3,) if tier == "quick" else (3, 4)):
            for comb in itertools.combinations(range(25), k):
                if (sum(comb) % 3 != 0) if tier == "quick" else (k == 4 and sum(comb) % 5 != 0):
                    continue
                P = np.array([pts[i] for i in comb])
                c = sph.unit(P.mean(axis=0))
                ang = np.arctan2(np.dot(P, np.cross(c, [0, 0, 1.0])), np.dot(P, np.cross(np.cross(c, [0, 0, 1.0]), c)))
                P = P[np.argsort(-ang)]
                tp = [np.dot(np.cross(P[i], P[(i + 1) % k]), P[(i + 2) % k]) for i in range(k)]
                if not (all(t > 1e-3 for t in tp) or all(t < -1e-3 for t in tp)):
                    continue  # strictly convex faces only
                yield {"fam": "large", "place": pi, "comb": list(comb)}, P
    # aligned faces: a corner exactly on lon = 0 / 180 / the equator, straddling that meridian
    for lon0 in (0.0, 180.0):
        for sgn in (1.0, -1.0):
            for k, ll in enumerate([
                [(0, 10), (10, 30), (-10, 30)], [(0, 40), (-12, 12), (9, 8)], [(0, 5), (15, 6), (14, 25), (-13, 22)],
                [(0, 0), (20, 10), (0, 30), (-20, 12)], [(-10, 0), (10, 0), (12, 20), (0, 28), (-11, 21)],
                [(0, 89), (120, 88), (-120, 87)], [(0, 80), (90, 81), (180, 79), (-90, 82)],
                # latitude-longitude aligned quads (meridian edges: their great circles pass through the poles)
                [(10, 10), (50, 10), (50, 60), (10, 60)], [(-10, 10), (50, 10), (50, 60), (-10, 60)], [(-30, -20), (20, -20), (20, 25), (-30, 25)], [(100, 70), (140, 70), (140, 85), (100, 85)],
            ]):
                P = np.array([meshes.lonlat_to_xyz(lon0 + a, sgn * b) for a, b in ll])
                yield {"fam": "aligned", "lon0": lon0, "sgn": sgn, "k": k}, P
    # a corner exactly at a pole
    for sgn in (1.0, -1.0):
        for n in (3, 4, 5):
            for lon0 in (10.0, 170.0, -30.0):
                ring = [meshes.lonlat_to_xyz(lon0 + 25.0 * i, sgn * (70.0 - 3.0 * i)) for i in range(n - 1)]
                P = np.array(([(0.0, 0.0, sgn)] + ring) if sgn > 0 else ([(0.0, 0.0, sgn)] + ring[::-1]))
                yield {"fam": "pole-corner", "sgn": sgn, "n": n, "lon0": lon0}, P


def cases(tier):
    n = sum(1 for _ in _faces(tier))
    nb = 64
    return [{"block": b, "nblocks": nb, "tier": tier} for b in range(nb)]


def interp_cases(tier):
    """interpreted pass (NUMBA_DISABLE_JIT=1): two sparse blocks of the face family"""
    return [{"block": 1, "nblocks": 200, "tier": "quick"}, {"block": 7, "nblocks": 200, "tier": "quick"}]


def selftest_case(tier):
    return {"block": 0, "nblocks": 64, "tier": "quick"}


def warmup(tier):
    run_case({"block": 0, "nblocks": 400, "tier": "quick"})


def _interval_contains(start, width, x, tol):
    d = (x - start) % (2 * math.pi)
    return d <= width + tol or d >= 2 * math.pi - tol


def run_case(case):
    import uxarray as ux

    res = {"violations": [], "evaluations": 0, "transitions": 0, "nontrivial": [], "outcomes": [], "axes": {}, "states": []}
    V = res["violations"]
    tier = case["tier"]
    todo = []
    for i, (d, P) in enumerate(_faces(tier)):
        if i % case["nblocks"] != case["block"]:
            continue
        if "only" in case and d != {k: v for k, v in case["only"].items() if k != "start"}:
            continue
        if not np.all(np.isfinite(P)):
            continue
        # ensure ccw
        k = len(P)
        if np.dot(np.cross(P[0], P[1]), P[2]) < 0:
            P = P[::-1].copy()
        orc = _oracle(P)
        if orc is None:
            res["axes"].setdefault("not_admissible", {"n": 0})["n"] += 1
            continue
        for s in range(k):
            if "only" in case and case["only"].get("start") != s:
                continue
            todo.append((dict(d, start=s), np.roll(P, -s, axis=0), orc))
    tagc = {}
    # one grid per chunk of faces (independent faces, own nodes)
    for c0 in range(0, len(todo), 40):
        chunk = todo[c0: c0 + 40]
        pts, faces = [], []
        for d, P, orc in chunk:
            off = len(pts)
            pts += [tuple(p) for p in P]
            faces.append(tuple(range(off, off + len(P))))
        m = meshes.Mesh("c13", pts, faces, False)
        pool.fresh()
        try:
            g = build.grid(m)
            b = np.asarray(g.bounds.values, dtype=float)
        except Exception as e:
            # find the culprit face by face
            b = None
            err = e
        for fi, (d, P, orc) in enumerate(chunk):
            res["evaluations"] += 1
            res["transitions"] += 1
            key = digest(d)
            res["states"].append(key)
            tags = sorted(orc["tags"])
            for t in tags:
                tagc[t] = tagc.get(t, 0) + 1
            if tags:
                res["nontrivial"].append(key)
            focus = dict(case, only=d)

            def bad(sig, msg, d=d, tags=tags, focus=focus, P=P):
                lon, lat = sph.xyz2ll(P)
                V.append({"oracle": "bounds", "sig": sig + ":" + ("+".join(tags) or "plain"), "msg": "face %s with corners (lon,lat) %s: %s" % (d, [(round(float(a), 4), round(float(c), 4)) for a, c in zip(lon, lat)], msg), "focus": focus})

            if b is None:
                try:
                    pool.fresh()
                    g1 = build.grid(meshes.Mesh("c13one", [tuple(p) for p in P], [tuple(range(len(P)))], False))
                    bi = np.asarray(g1.bounds.values, dtype=float)[0]
                except Exception as e:
                    bad("c13:raises:%s" % type(e).__name__, "Grid.bounds raised %r" % (e,))
                    continue
            else:
                bi = b[fi]
            (lat_lo, lat_hi), (lon_lo, lon_hi) = bi
            olat = orc["lat"]
            res["outcomes"].append(digest(np.round(bi, 6)))
            # enclosure
            if lat_lo > olat[0] + 1e-9 or lat_hi < olat[1] - 1e-9:
                bad("c13:latitude-not-enclosed", "bounds lat [%.9f, %.9f] do not enclose the face's latitude range [%.9f, %.9f]" % (lat_lo, lat_hi, olat[0], olat[1]))
                continue
            if lat_lo < olat[0] - 1e-8 or lat_hi > olat[1] + 1e-8:
                bad("c13:latitude-not-tight", "bounds lat [%.9f, %.9f] are wider than the face's latitude range [%.9f, %.9f]" % (lat_lo, lat_hi, olat[0], olat[1]))
                continue
            if orc["full_lon"]:
                w = (lon_hi - lon_lo) if lon_hi >= lon_lo else (2 * math.pi - lon_lo + lon_hi)
                if abs(w - 2 * math.pi) > 1e-8:
                    bad("c13:pole-face-longitude-not-full", "a pole lies inside the face but the longitude bounds are [%.9f, %.9f]" % (lon_lo, lon_hi))
                continue
            start, width = orc["lon"]
            gs = lon_lo % (2 * math.pi)
            gw = (lon_hi - lon_lo) % (2 * math.pi)
            enclosed = _interval_contains(gs, gw, start, 1e-9) and _interval_contains(gs, gw, (start + width) % (2 * math.pi), 1e-9) and gw >= width - 1e-9
            if not enclosed:
                bad("c13:longitude-not-enclosed", "bounds lon [%.9f, %.9f] do not cover the boundary's longitude interval start %.9f width %.9f" % (lon_lo, lon_hi, start, width))
                continue
            if gw > width + 1e-8:
                bad("c13:longitude-not-tight", "bounds lon [%.9f, %.9f] (width %.9f) are wider than the shortest covering interval (start %.9f width %.9f)" % (lon_lo, lon_hi, gw, start, width))
                continue
            if start + width > 2 * math.pi + 1e-9 and not (lon_lo > lon_hi):
                bad("c13:wraparound-representation", "the interval wraps through 0 but lon_min <= lon_max: [%.9f, %.9f]" % (lon_lo, lon_hi))
    res["axes"]["face_tags"] = tagc
    res["sample"] = {"block": case["block"], "faces": len(todo)}
    return res


def run(ctx):
    ctx.map(run_case, cases(ctx.tier))
