"""C15 -- Exported polygons and lines correspond one-to-one with faces.

Explorers I + H.
  absolute : every (grid, conversion, periodic_elements, engine, projection) on a fresh grid, judged against the
             definition: antimeridian faces = faces with an edge spanning >= 180 degrees of longitude; polygon i shows
             face i's corners in order (or their projected images); 'exclude' drops exactly the antimeridian faces;
             'split' pieces cover the same face and none spans the antimeridian; identity data sit on their own faces.
  history  : BFS (explorer H) over conversion events with other arguments / flags / variables; every result must
             equal the fresh-grid result for the same arguments, and every object handed out earlier must still have
             the content it had when it was returned.
"""

import numpy as np

from vf.alpha import build, events as E, meshes
from vf.core import hexplore, pool
from vf.core.state import digest

ID = "C15"
RULE = (
    "absolute: partial grids without pole-enclosing faces {mixed 3..6-gon patch, antimeridian strip (nodes on +-180), three crossing faces of sizes 3/4/5 between ordinary "
    "faces, one face of every size 3..8} x {to_geodataframe (spatialpandas, geopandas), to_polycollection, to_linecollection, UxDataArray.to_geodataframe, UxDataArray.to_polycollection} x "
    "periodic_elements {exclude, split, ignore} x projection {None, Robinson}; plus, on the grids with faces at every longitude / at +-180 (equatorial ring of 8 quads + 8 triangles, am3, amstrip), the same calls x {exclude, ignore} x projection central longitude {90, 180, -120}; antimeridian_face_indices by definition on closed / pole-enclosing grids under every start corner of every face; history: BFS depth d over 46 conversion events (arguments x "
    "cache/override flags x projections incl. central_longitude=180 x two data variables) on 3 grids, states merged on the digest of the grid's caches. "
    "non-trivial = grid with at least one antimeridian face and one ordinary face, or a history event that hit / replaced a cache; distinct = (grid, call, arguments)"
)
ASSUMPTIONS = [
    "corner coordinates are compared at float32 resolution (the library builds float32 shells): 1e-4 degrees / relative 1e-5 for projected metres",
    "a polygon 'shows' a face if its exterior ring, with consecutive duplicate vertices removed, equals the face's corner cycle up to rotation and orientation (spatialpandas re-orients rings)",
    "for projections with central longitude 0 the absolute oracle also fixes WHICH faces 'exclude' drops; for central longitudes 90 / 180 / -120 (Robinson, Mollweide) it judges only what the statement fixes there: every polygon is the projected image of one face, in ascending face order, 'ignore' shows all faces, and each carried value is the value of the face shown (which faces are dropped is left to the history search, where the reference is the fresh-grid result)",
    "split: total area of a face's pieces in the unwrapped lon/lat plane equals the face's planar area within 3% (the cut points lie on great-circle edges, not on straight lon/lat lines), no piece has an edge with |dlon| >= 180",
]
BOUNDS = {"quick": "absolute on 6 grids (incl. a kilometre-scale patch across the antimeridian) (3 of them also with shifted central longitudes); history depth 2 over 49 events on 2 grids, depth 3 over the ~30 cache-relevant events on 1 grid", "thorough": "absolute on 9 grids; history depth 3 over 49 events on 2 grids, depth 2 on 2 more"}
GRIDS_Q = ["mixedpatch", "amstrip", "am3", "sizes38", "eqring", "finequads-am"]
SHIFTED = ("robinson90", "robinson180", "mollweide-120")
SHIFTED_GRIDS = ("eqring", "am3", "amstrip")
GRIDS_T = GRIDS_Q + ["am3:rev", "isolated", "cornertouch"]


# ----------------------------------------------------------------------------- geometry helpers
def _rings_of_gdf(gdf):
    """per row: list of exterior rings (k,2)"""
    out = []
    geoms = gdf["geometry"]
    tname = type(geoms.dtype).__module__
    if "spatialpandas" in tname:
        arr = geoms.values
        for i in range(len(arr)):
            d = arr[i].data.as_py()
            rings = []
            _collect_flat(d, rings)
            out.append(rings)
    else:
        for geom in geoms.values:
            rings = []
            for poly in getattr(geom, "geoms", [geom]):
                rings.append(np.asarray(poly.exterior.coords, dtype=float))
            out.append(rings)
    return out


def _collect_flat(d, rings):
    # spatialpandas: Polygon = [ring, hole...] each ring flat [x0,y0,...]; MultiPolygon = [[ring, ...], ...]
    if not d:
        return
    if isinstance(d[0], (int, float)):
        rings.append(np.asarray(d, dtype=float).reshape(-1, 2))
        return
    if isinstance(d[0], list) and d[0] and isinstance(d[0][0], (int, float)):
        rings.append(np.asarray(d[0], dtype=float).reshape(-1, 2))  # exterior only
        return
    for x in d:
        _collect_flat(x, rings)


def _dedup(r):
    r = np.asarray(r, dtype=float)
    if len(r) == 0:
        return r
    keep = [0]
    for i in range(1, len(r)):
        if not np.allclose(r[i], r[keep[-1]], rtol=0, atol=0):
            keep.append(i)
    r = r[keep]
    if len(r) > 1 and np.array_equal(r[0], r[-1]):
        r = r[:-1]
    return r


def _same_ring(ring, corners, tol):
    a, b = _dedup(ring), _dedup(corners)
    if len(a) != len(b) or len(a) == 0:
        return False
    for bb in (b, b[::-1]):  # geometry libraries normalise ring orientation: the same cycle traversed backwards is the same polygon
        for k in range(len(a)):
            if np.all(np.abs(np.roll(bb, -k, axis=0) - a) <= tol):
                return True
    return False


def _planar_area(r):
    r = np.asarray(r, dtype=float)
    x, y = r[:, 0], r[:, 1]
    return 0.5 * abs(float(np.dot(x, np.roll(y, -1)) - np.dot(y, np.roll(x, -1))))


class Model:
    def __init__(self, m, proj_name):
        lon, lat = m.lonlat()
        self.lon32 = lon.astype(np.float32).astype(float)
        self.lat32 = lat.astype(np.float32).astype(float)
        self.faces = m.faces
        self.corners = [np.stack([self.lon32[list(f)], self.lat32[list(f)]], axis=1) for f in m.faces]
        self.am = []
        for i, c in enumerate(self.corners):
            closed = np.concatenate([c[:, 0], c[:1, 0]])
            if np.any(np.abs(np.diff(closed)) >= 180.0):
                self.am.append(i)
        self.proj = E._proj(proj_name)
        if self.proj is not None:
            import cartopy.crs as ccrs

            xy = self.proj.transform_points(ccrs.PlateCarree(), lon, lat)[:, :2]
            self.pcorners = [xy[list(f)].astype(np.float32).astype(float) for f in m.faces]
        else:
            self.pcorners = None

    def shown(self, i, projected):
        return self.pcorners[i] if projected else self.corners[i]

    def tol(self, projected, i):
        if projected:
            return 1e-5 * max(1.0, float(np.nanmax(np.abs(self.pcorners[i])))) + 1.0
        return 1e-4


def judge_rows(rows, mdl, pe, projected, bad, what, data=None):
    """rows: list of ring-lists (one entry per polygon/row).  data: per-row face index claimed by the data column."""
    n = len(mdl.faces)
    am = set(mdl.am)
    if pe == "exclude":
        want = [i for i in range(n) if i not in am]
        if projected:
            want = [i for i in want if not np.isnan(mdl.pcorners[i]).any()]
    else:
        want = list(range(n))
        if projected and pe == "ignore":
            keep = [i for i in range(n) if i in am or not np.isnan(mdl.pcorners[i]).any()]
            want = keep if len(rows) == len(keep) else want
    if data is not None:
        if len(data) != len(rows):
            bad("c15:%s:data-length" % what, "%d data values for %d polygons" % (len(data), len(rows)))
            return
    if pe == "split" and what.startswith("poly"):
        # pieces: rows are pieces; data/mapping tells the face of each piece
        owner = data
        if owner is None:
            return
        pieces = {}
        for r, o in zip(rows, owner):
            pieces.setdefault(int(o), []).append(r[0])
        if sorted(pieces) != list(range(n)):
            bad("c15:%s:split-faces-missing" % what, "pieces belong to faces %s, grid has %d faces" % (sorted(pieces), n))
            return
        for i in range(n):
            _judge_pieces(i, pieces[i], mdl, bad, what)
        return
    if len(rows) != len(want):
        bad("c15:%s:%s:count" % (what, pe), "%d polygons, expected %d (faces %d, antimeridian faces %s)" % (len(rows), len(want), n, sorted(am)))
        return
    for r, (rings, i) in enumerate(zip(rows, want)):
        if pe == "split" and i in am:
            _judge_pieces(i, rings, mdl, bad, what)
            continue
        if len(rings) != 1:
            bad("c15:%s:%s:multi-ring" % (what, pe), "row %d has %d rings for an ordinary face" % (r, len(rings)))
            return
        ok = _same_ring(rings[0], mdl.shown(i, projected), mdl.tol(projected, i))
        if not ok and projected and _same_ring(rings[0], mdl.corners[i], 1e-4):
            ok = True  # unprojected corner (lon, lat) is the statement's other alternative
        if not ok:
            bad("c15:%s:%s:polygon-is-not-its-face" % (what, pe), "polygon %d should show face %d %s but has vertices %s" % (r, i, np.round(mdl.shown(i, projected), 4).tolist(), np.round(_dedup(rings[0]), 4).tolist()))
            return
        if data is not None and int(data[r]) != i:
            shown_ok = 0 <= int(data[r]) < n and _same_ring(rings[0], mdl.shown(int(data[r]), projected), mdl.tol(projected, i))
            if not shown_ok:
                bad("c15:%s:%s:data-misaligned" % (what, pe), "polygon %d shows face %d but carries the value of face %d" % (r, i, int(data[r])))
                return


def judge_shifted(rows, mdl, pe, bad, what, data=None):
    """projection with a non-zero central longitude: which faces 'exclude' drops is not judged (the statement defines
    crossing faces in plain longitudes; the library drops those straddling the projection's own seam), but every polygon
    that is shown must be the projected image of one face, faces appear in ascending order without repetition, 'ignore'
    shows every face, and the value a polygon carries is the value of the face it shows."""
    n = len(mdl.faces)
    if data is not None and len(data) != len(rows):
        bad("c15:%s:data-length" % what, "%d data values for %d polygons" % (len(data), len(rows)))
        return
    if pe == "ignore" and len(rows) != n:
        bad("c15:%s:ignore:count" % what, "%d polygons, the grid has %d faces" % (len(rows), n))
        return
    if len(rows) > n:
        bad("c15:%s:%s:count" % (what, pe), "%d polygons, the grid has %d faces" % (len(rows), n))
        return
    last = -1
    for r, rings in enumerate(rows):
        if len(rings) != 1:
            bad("c15:%s:%s:multi-ring" % (what, pe), "row %d has %d rings" % (r, len(rings)))
            return
        hit = [j for j in range(last + 1, n) if _same_ring(rings[0], mdl.pcorners[j], mdl.tol(True, j))]
        if not hit:
            bad("c15:%s:%s:polygon-is-not-its-face" % (what, pe), "polygon %d (%s) is the projected image of no face after face %d" % (r, np.round(_dedup(rings[0]), 1).tolist(), last))
            return
        last = hit[0]
        if data is not None and int(data[r]) != last:
            bad("c15:%s:%s:data-misaligned" % (what, pe), "polygon %d shows face %d but carries the value of face %d" % (r, last, int(data[r])))
            return


def _judge_pieces(i, rings, mdl, bad, what):
    c = mdl.corners[i].copy()
    if i in mdl.am:
        c[:, 0] = np.where(c[:, 0] < 0, c[:, 0] + 360.0, c[:, 0])
    want_area = _planar_area(c)
    tot = 0.0
    for r in rings:
        rr = _dedup(r)
        if len(rr) < 3:
            continue
        closed = np.concatenate([rr[:, 0], rr[:1, 0]])
        if np.any(np.abs(np.diff(closed)) >= 180.0):
            bad("c15:%s:split:piece-spans-antimeridian" % what, "a piece of face %d has an edge spanning >= 180 degrees: %s" % (i, np.round(rr, 3).tolist()))
            return
        tot += _planar_area(rr)
    if abs(tot - want_area) > 3e-2 * max(1.0, want_area):
        bad("c15:%s:split:pieces-do-not-cover-face" % what, "pieces of face %d have total planar area %.5f, the face has %.5f" % (i, tot, want_area))


# ----------------------------------------------------------------------------- absolute cases
def _mesh(name):
    # only partial grids without pole-enclosing faces: such faces are proper polygons in the lon/lat plane
    if name.endswith(":rev"):
        b = meshes.get(name[:-4])
        return b.reorder_faces(list(range(b.n_face))[::-1], name)
    return meshes.get(name)


def _run_absolute(case, res):
    V = res["violations"]
    m = _mesh(case["mesh"])
    for proj in (None, "robinson"):
        mdl = Model(m, proj)
        projected = proj is not None
        for pe in ("exclude", "split", "ignore"):
            if projected and pe == "split":
                continue
            for call in ("gdf:spatialpandas", "gdf:geopandas", "poly", "line", "uxda.gdf:spatialpandas", "uxda.gdf:geopandas", "uxda.poly"):
                foc = {"proj": proj, "pe": pe, "call": call}
                if "only" in case and foc != case["only"]:
                    continue
                focus = dict(case, only=foc)

                def bad(sig, msg):
                    V.append({"oracle": "absolute", "sig": sig, "msg": "grid %s, %s(periodic_elements=%s, projection=%s): %s" % (case["mesh"], call, pe, proj, msg), "focus": focus})

                pool.fresh()
                g = build.grid(m)
                P = E._proj(proj)
                res["evaluations"] += 1
                res["transitions"] += 1
                key = digest((case["mesh"], foc))
                res["states"].append(key)
                if mdl.am and len(mdl.am) < m.n_face:
                    res["nontrivial"].append(key)
                try:
                    if call.startswith("gdf:"):
                        gdf = g.to_geodataframe(periodic_elements=pe, projection=P, engine=call[4:])
                        judge_rows(_rings_of_gdf(gdf), mdl, pe, projected, bad, "gdf")
                    elif call.startswith("uxda.gdf:"):
                        da = build.uxda(g, np.arange(m.n_face, dtype=float), "n_face", name="ident")
                        gdf = da.to_geodataframe(periodic_elements=pe, projection=P, engine=call[9:])
                        if "ident" not in gdf.columns:
                            bad("c15:uxda.gdf:no-data-column", "columns %s" % list(gdf.columns))
                        else:
                            judge_rows(_rings_of_gdf(gdf), mdl, pe, projected, bad, "uxda.gdf", data=np.asarray(gdf["ident"].values))
                    elif call == "poly":
                        pc, c2o = g.to_polycollection(periodic_elements=pe, projection=P, return_indices=True)
                        rows = [[np.asarray(p.vertices, dtype=float)] for p in pc.get_paths()]
                        judge_rows(rows, mdl, pe, projected, bad, "poly", data=(np.asarray(c2o) if pe == "split" else None))
                    elif call == "uxda.poly":
                        da = build.uxda(g, np.arange(m.n_face, dtype=float), "n_face", name="ident")
                        pc = da.to_polycollection(periodic_elements=pe, projection=P)
                        rows = [[np.asarray(p.vertices, dtype=float)] for p in pc.get_paths()]
                        arr = pc.get_array()
                        if arr is None:
                            bad("c15:uxda.poly:no-array", "collection carries no data array")
                        else:
                            judge_rows(rows, mdl, pe, projected, bad, "uxda.poly" if pe != "split" else "poly", data=np.ma.filled(np.ma.asarray(arr).astype(float), np.nan))
                    else:
                        lc = g.to_linecollection(periodic_elements=pe, projection=P)
                        segs = [np.asarray(s, dtype=float) for s in lc.get_segments()]
                        if pe == "split":
                            for s in segs:
                                if len(s) > 1 and np.any(np.abs(np.diff(s[:, 0])) >= 180.0):
                                    bad("c15:line:split:segment-spans-antimeridian", "a line has an edge spanning >= 180 degrees: %s" % np.round(s, 3).tolist())
                                    break
                        else:
                            judge_rows([[s] for s in segs], mdl, pe, projected, bad, "line")
                    res["outcomes"].append(digest((call, pe, proj, "ok")))
                except Exception as e:
                    bad("c15:%s:raises:%s" % (call.split(":")[0], type(e).__name__), "raised %r" % (e,))
    # projections whose central longitude is not 0 (seam elsewhere than +-180)
    for proj in (SHIFTED if case["mesh"] in SHIFTED_GRIDS else ()):
        mdl = Model(m, proj)
        for pe in ("exclude", "ignore"):
            for call in ("gdf:spatialpandas", "gdf:geopandas", "poly", "uxda.gdf:spatialpandas", "uxda.gdf:geopandas", "uxda.poly"):
                foc = {"proj": proj, "pe": pe, "call": call}
                if "only" in case and foc != case["only"]:
                    continue
                focus = dict(case, only=foc)

                def bad(sig, msg):
                    V.append({"oracle": "absolute-shifted", "sig": sig.replace("c15:", "c15:shifted:", 1), "msg": "grid %s, %s(periodic_elements=%s, projection=%s): %s" % (case["mesh"], call, pe, proj, msg), "focus": focus})

                pool.fresh()
                g = build.grid(m)
                P = E._proj(proj)
                res["evaluations"] += 1
                res["transitions"] += 1
                key = digest((case["mesh"], foc))
                res["states"].append(key)
                res["nontrivial"].append(key)
                try:
                    da = build.uxda(g, np.arange(m.n_face, dtype=float), "n_face", name="ident")
                    if call.startswith("gdf:"):
                        rows = _rings_of_gdf(g.to_geodataframe(periodic_elements=pe, projection=P, engine=call[4:]))
                        data = None
                    elif call.startswith("uxda.gdf:"):
                        gdf = da.to_geodataframe(periodic_elements=pe, projection=P, engine=call[9:])
                        rows, data = _rings_of_gdf(gdf), np.asarray(gdf["ident"].values)
                    elif call == "poly":
                        pc = g.to_polycollection(periodic_elements=pe, projection=P)
                        rows, data = [[np.asarray(q.vertices, dtype=float)] for q in pc.get_paths()], None
                    else:
                        pc = da.to_polycollection(periodic_elements=pe, projection=P)
                        rows = [[np.asarray(q.vertices, dtype=float)] for q in pc.get_paths()]
                        data = np.ma.filled(np.ma.asarray(pc.get_array()).astype(float), np.nan)
                    judge_shifted(rows, mdl, pe, bad, call.split(":")[0], data)
                    res["outcomes"].append(digest((call, pe, proj, len(rows))))
                except Exception as e:
                    bad("c15:%s:raises:%s" % (call.split(":")[0], type(e).__name__), "raised %r" % (e,))
    # antimeridian_face_indices by definition
    pool.fresh()
    g = build.grid(m)
    mdl = Model(m, None)
    try:
        got = sorted(int(i) for i in np.asarray(g.antimeridian_face_indices).ravel())
        if got != sorted(mdl.am):
            V.append({"oracle": "absolute", "sig": "c15:antimeridian_face_indices", "msg": "grid %s: antimeridian_face_indices %s, faces with an edge spanning >= 180 degrees: %s" % (case["mesh"], got, mdl.am), "focus": dict(case, only={"call": "am"})})
    except Exception as e:
        V.append({"oracle": "absolute", "sig": "c15:antimeridian_face_indices:raises:%s" % type(e).__name__, "msg": repr(e), "focus": dict(case, only={"call": "am"})})
    res["axes"] = {"absolute_grid": {case["mesh"]: res["evaluations"]}, "antimeridian_faces": {case["mesh"]: len(mdl.am)}}
    res["sample"] = {"mesh": case["mesh"], "kind": "absolute", "antimeridian_faces": mdl.am}
    return res


# ----------------------------------------------------------------------------- history (explorer H)
_RET = []  # (digest at return time, object) for every object handed out in the current execution


def _keep(obj):
    from vf.core.state import digest as dg

    _RET.append((dg(obj), obj))
    return obj


def _events():
    ev = {}

    def gdf(pe, engine, proj, **flags):
        def f(g):
            out = {}
            E.obs_gdf(_keep(g.to_geodataframe(periodic_elements=pe, engine=engine, projection=E._proj(proj), **flags)), out)
            return out

        return f

    def coll(kind, pe, proj, **flags):
        def f(g):
            out = {}
            fn = g.to_polycollection if kind == "poly" else g.to_linecollection
            E.obs_collection(_keep(fn(periodic_elements=pe, projection=E._proj(proj), **flags)), out)
            return out

        return f

    def uxda(kind, pe, proj, var, **flags):
        def f(g):
            vals = np.arange(g.n_face, dtype=float) if var == "ident" else (np.arange(g.n_face, dtype=float)[::-1] * 10.0 + 3.0)
            da = build.uxda(g, vals, "n_face", name=var)
            out = {}
            if kind == "gdf":
                E.obs_gdf(_keep(da.to_geodataframe(periodic_elements=pe, projection=E._proj(proj), **flags)), out)
            else:
                E.obs_collection(_keep(da.to_polycollection(periodic_elements=pe, projection=E._proj(proj), **flags)), out)
            return out

        return f

    for pe in ("exclude", "split", "ignore"):
        ev["gdf(%s)" % pe] = ("value", gdf(pe, "spatialpandas", None))
        ev["poly(%s)" % pe] = ("value", coll("poly", pe, None))
        ev["line(%s)" % pe] = ("value", coll("line", pe, None))
        ev["uxda.gdf(%s,ident)" % pe] = ("value", uxda("gdf", pe, None, "ident"))
        ev["uxda.poly(%s,ident)" % pe] = ("value", uxda("poly", pe, None, "ident"))
    ev["gdf(exclude,geopandas)"] = ("value", gdf("exclude", "geopandas", None))
    ev["gdf(split,geopandas)"] = ("value", gdf("split", "geopandas", None))
    for proj in ("robinson", "robinson180", "ortho"):
        ev["gdf(exclude,%s)" % proj] = ("value", gdf("exclude", "spatialpandas", proj))
        ev["poly(exclude,%s)" % proj] = ("value", coll("poly", "exclude", proj))
        ev["line(exclude,%s)" % proj] = ("value", coll("line", "exclude", proj))
        ev["uxda.gdf(exclude,%s,ident)" % proj] = ("value", uxda("gdf", "exclude", proj, "ident"))
        ev["uxda.poly(exclude,%s,ident)" % proj] = ("value", uxda("poly", "exclude", proj, "ident"))
    ev["gdf(ignore,robinson180)"] = ("value", gdf("ignore", "spatialpandas", "robinson180"))
    ev["poly(ignore,robinson180)"] = ("value", coll("poly", "ignore", "robinson180"))
    # cache / override flags
    ev["gdf(exclude,cache=False)"] = ("value", gdf("exclude", "spatialpandas", None, cache=False))
    ev["gdf(split,cache=False,override)"] = ("value", gdf("split", "spatialpandas", None, cache=False, override=True))
    ev["gdf(exclude,robinson180,cache=False)"] = ("value", gdf("exclude", "spatialpandas", "robinson180", cache=False))
    ev["gdf(exclude,override)"] = ("value", gdf("exclude", "spatialpandas", None, override=True))
    ev["poly(exclude,cache=False)"] = ("value", coll("poly", "exclude", None, cache=False))
    ev["poly(split,cache=False,override)"] = ("value", coll("poly", "split", None, cache=False, override=True))
    ev["poly(exclude,robinson180,cache=False)"] = ("value", coll("poly", "exclude", "robinson180", cache=False))
    ev["poly(ignore,robinson,cache=False)"] = ("value", coll("poly", "ignore", "robinson", cache=False))
    ev["line(exclude,cache=False)"] = ("value", coll("line", "exclude", None, cache=False))
    ev["line(split,override)"] = ("value", coll("line", "split", None, override=True))
    # other variable
    ev["uxda.gdf(exclude,other)"] = ("value", uxda("gdf", "exclude", None, "other"))
    ev["uxda.poly(split,other)"] = ("value", uxda("poly", "split", None, "other"))
    ev["uxda.gdf(exclude,ident,cache=False)"] = ("value", uxda("gdf", "exclude", None, "ident", cache=False))
    ev["uxda.poly(exclude,robinson180,ident,cache=False)"] = ("value", uxda("poly", "exclude", "robinson180", "ident", cache=False))
    ev["am_indices"] = ("value", lambda g: {"am": np.asarray(g.antimeridian_face_indices)})
    return ev


EVENTS = _events()


def _returned_unaltered(exp, sname, grids, hist):
    from vf.core.state import digest as dg

    out = []
    for i, (d0, obj) in enumerate(_RET[:-1] if _RET else []):
        if dg(obj) != d0:
            out.append(("returned-object", "c15:returned-object-altered-later", "the object returned by step %d (%s) was altered by a later conversion (%s)" % (i, hist[i][1] if i < len(hist) else "?", hist[-1][1])))
            break
    return out


def _plain(name):
    return lambda: build.grid(meshes.get(name))


def _am_mixed():
    """antimeridian strip rotated so that faces also straddle lon 0 after a 180-degree shift"""
    return build.grid(meshes.get("amstrip"))


SETUPS = [hexplore.Setup("amstrip", {"A": _plain("amstrip")}), hexplore.Setup("cube", {"A": _plain("cube")}), hexplore.Setup("mixedpatch", {"A": _plain("mixedpatch")}), hexplore.Setup("lon0strip", {"A": lambda: build.grid(meshes.get("amstrip").transform(meshes.rot_axis((0, 0, 1), 180.0), "lon0strip"))})]
EXP = hexplore.Explorer("c15", SETUPS, EVENTS, extra_invariant=_returned_unaltered)
_orig_replay = EXP.replay


def _replay(sname, hist, check_from=0, want_canon_at=None):
    del _RET[:]
    return _orig_replay(sname, hist, check_from, want_canon_at)


EXP.replay = _replay


AM_GRIDS_Q = ["polecap", "cube", "pyr4", "octa", "polefan", "polarcap2", "amstrip", "cs2"]
AM_GRIDS_T = AM_GRIDS_Q + ["tetra", "prism", "pyr6", "icosa", "polarcap2s", "eqring", "finequads-am"]


def cases(tier):
    out = [{"kind": "absolute", "mesh": n} for n in (GRIDS_Q if tier == "quick" else GRIDS_T)]
    # antimeridian_face_indices by definition on ANY grid (closed, pole-enclosing faces) under every start corner of every face
    out += [{"kind": "am", "mesh": n} for n in (AM_GRIDS_Q if tier == "quick" else AM_GRIDS_T)]
    return out


def _run_am(case, res):
    """antimeridian faces = faces with an edge (the closing one included) spanning >= 180 degrees of longitude; a pole-enclosing face has an odd
    number of such edges, possibly only the closing one"""
    V = res["violations"]
    base = meshes.get(case["mesh"])
    variants = [({"start": None}, base)] + [({"start": [fi, k]}, base.rotate_face(fi, k)) for fi, k in meshes.start_corners(base)]
    for d, m in variants:
        if "only" in case and d != case["only"]:
            continue
        pool.fresh()
        g = build.grid(m)
        mdl = Model(m, None)
        res["evaluations"] += 1
        res["transitions"] += 1
        key = digest((case["mesh"], "am", d))
        res["states"].append(key)
        if mdl.am and len(mdl.am) < m.n_face:
            res["nontrivial"].append(key)
        try:
            got = sorted(int(i) for i in np.asarray(g.antimeridian_face_indices).ravel())
        except Exception as e:
            V.append({"oracle": "absolute", "sig": "c15:antimeridian_face_indices:raises:%s" % type(e).__name__, "msg": "grid %s %s: %r" % (case["mesh"], d, e), "focus": dict(case, only=d)})
            continue
        if got != sorted(mdl.am):
            V.append({"oracle": "absolute", "sig": "c15:antimeridian_face_indices", "msg": "grid %s, %s: antimeridian_face_indices %s, faces with an edge spanning >= 180 degrees: %s" % (case["mesh"], d, got, mdl.am), "focus": dict(case, only=d)})
        res["outcomes"].append(digest(got))
    res["axes"] = {"am_grid": {case["mesh"]: res["evaluations"]}}
    res["sample"] = {"mesh": case["mesh"], "kind": "am"}
    return res


def interp_cases(tier):
    """interpreted pass (NUMBA_DISABLE_JIT=1)"""
    return [{"kind": "absolute", "mesh": "am3"}, {"kind": "am", "mesh": "polecap"}]


def selftest_case(tier):
    return {"kind": "absolute", "mesh": "amstrip"}


def warmup(tier):
    run_case({"kind": "absolute", "mesh": "amstrip"})
    EXP.task({"kind": "expand", "setup": "amstrip", "hist": [], "canon": None})
    EXP.ref.clear()


def run_case(case):
    if case["kind"] == "am":
        return _run_am(case, {"violations": [], "evaluations": 0, "transitions": 0, "nontrivial": [], "outcomes": [], "axes": {}, "states": []})
    if case["kind"] == "absolute":
        return _run_absolute(case, {"violations": [], "evaluations": 0, "transitions": 0, "nontrivial": [], "outcomes": [], "axes": {}, "states": []})
    return EXP.task(case)


def run(ctx):
    from vf.props.c08 import EXP_bfs

    ctx.map(run_case, cases(ctx.tier))
    EXP.compute_ref()
    import vf.props.c15 as me

    plan = [("amstrip", 2), ("lon0strip", 2)] if ctx.tier == "quick" else [("amstrip", 3), ("lon0strip", 3), ("cube", 2), ("mixedpatch", 2)]
    for s, d in plan:
        _bfs(ctx, s, d)
    if ctx.tier == "quick":
        # depth 3 over the events that hit, bypass or replace a cache (flags, other projections, data variants)
        sub = [e for e in EVENTS if "cache=" in e or "override" in e or "robinson180" in e or e.startswith("uxda.") or e in ("gdf(exclude)", "poly(exclude)", "line(exclude)", "am_indices")]
        ctx.extra["depth3_alphabet"] = len(sub)
        _bfs(ctx, "amstrip", 3, alphabet=[["A", e] for e in sub])


def _bfs(ctx, sname, depth, alphabet=None):
    seen, frontier = {}, []
    stats = {"setup": sname, "levels": [], "alphabet": len(alphabet) if alphabet else len(EVENTS)}
    r0 = ctx.map(run_case, [{"kind": "one", "setup": sname, "hist": [], "check_from": 0}])[0]
    c0 = r0["succ"][0][1]
    seen[c0] = []
    frontier = [([], c0)]
    for d in range(depth):
        cs = [{"kind": "expand", "setup": sname, "hist": h, "canon": c, "alphabet": alphabet} for h, c in frontier]
        nxt, nt = [], 0
        for case, r in zip(cs, ctx.map(run_case, cs)):
            for (ev, c) in r["succ"]:
                nt += 1
                if c not in seen:
                    seen[c] = case["hist"] + [list(ev)]
                    nxt.append((seen[c], c))
        stats["levels"].append({"depth": d + 1, "expanded_states": len(frontier), "transitions": nt, "new_states": len(nxt)})
        frontier = nxt
    stats["distinct_states"] = len(seen)
    ctx.extra.setdefault("bfs", []).append(stats)
