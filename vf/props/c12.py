"""C12 -- Remapping picks true nearest sources and never invents values.

Explorer I: all ordered pairs of grids x data kind x destination x coordinate type x data alphabet; unit impulses
recover the full nearest-neighbour selection / IDW weight matrix, which is judged against brute-force great-circle
distances between the elements *of the kind named by the data's dimension*.
"""

import itertools

import numpy as np

from vf.alpha import build, meshes
from vf.core import pool
from vf.core.state import digest
from vf.oracle import sph

ID = "C12"
RULE = (
    "all ordered pairs of grids {mixed 3..6-gon patch, cube, tetrahedron (n_node = n_face), single triangle (n_node = n_edge, one face), pyramid whose face centres "
    "come from the source and are displaced from the corner mean} x data on {nodes, edges, faces} x remap_to {nodes, edge centers, face centers} x coord_type {spherical, "
    "cartesian} x data {every unit impulse, identity, ones, generic, generic int64, constant int64; leading dims (), (2), (2,3)}; IDW additionally x k in {2, 3, n} x power in {1, 2, 5}; call histories: every sequence of d remap calls over the 36 (method, coordinate type, destination, source kind) variants on the same two Grid objects, every call judged. "
    "plus histories: all 6 orders of remapping a node-, an edge- and a face-centred variable between the same two Grid objects (NN and IDW). non-trivial = pair of different grids or a history; distinct = (source, destination, kind, remap_to, coord_type, k, power)"
)
ASSUMPTIONS = [
    "element positions are those the grids report (C04); nearest = smallest great-circle distance, ties (within 1e-9) accepted in any order",
    "IDW: only what the statement says is required - weights >= 0, rows sum to 1, support within the k nearest, weights non-increasing with distance, constants reproduced",
    "the element dimension is the last dimension",
]
BOUNDS = {"quick": "6 grids (36 ordered pairs; destinations with 1, 2, 3.. elements), IDW (k, power) in {(2,2), (3,1), (n,5)}; call histories of depth 2 over 36 call variants + the public recomputation of the source's face centres on 2 grid pairs", "thorough": "8 grids (64 pairs), IDW k in {2,3,n} x power in {1,2,5}; call histories of depth 3 over 36 call variants + the public recomputation of the source's face centres on 1 grid pair (46656 sequences), depth 2 on 3 more"}
GRIDS_Q = ["mixedpatch", "cube", "tetra", "single3", "centres:pyr5", "isolated"]  # isolated: exactly two faces
GRIDS_T = GRIDS_Q + ["amstrip", "polefan"]
DEST = {"nodes": "n_node", "edge centers": "n_edge", "face centers": "n_face"}
KIND = {"n_node": "nodes", "n_edge": "edge centers", "n_face": "face centers"}


def _grid(name):
    import uxarray as ux

    if name.startswith("centres:"):
        m = meshes.get(name[8:])
        lon, lat = m.lonlat()
        P = np.array(m.points)
        c = np.array([sph.unit(0.55 * sph.unit(P[list(f)].mean(axis=0)) + 0.45 * P[f[0]]) for f in m.faces])
        flon, flat = sph.xyz2ll(c)
        return ux.Grid.from_topology(lon.copy(), lat.copy(), m.table(), fill_value=build.FILL, face_lon=flon, face_lat=flat), m
    m = meshes.get(name)
    return build.grid(m), m


def _pos(g, kind):
    if kind == "nodes":
        return sph.ll2xyz(g.node_lon.values, g.node_lat.values)
    if kind == "edge centers":
        return sph.ll2xyz(g.edge_lon.values, g.edge_lat.values)
    return sph.ll2xyz(g.face_lon.values, g.face_lat.values)


def cases(tier):
    gl = GRIDS_Q if tier == "quick" else GRIDS_T
    out = [{"src": a, "dst": b, "tier": tier} for a in gl for b in gl]
    # call histories on the same two Grid objects: every sequence of `depth` remap calls over 36 (method, coordinate type, destination, source kind) variants
    for a, b, d in ([("mixedpatch", "cube", 2), ("centres:pyr5", "mixedpatch", 2)] if tier == "quick" else [("mixedpatch", "cube", 3), ("centres:pyr5", "mixedpatch", 2), ("tetra", "mixedpatch", 2), ("amstrip", "polefan", 2)]):
        for first in range(len(CALLS)):
            out.append({"kind": "calls", "src": a, "dst": b, "first": first, "depth": d, "tier": tier})
    # remap . recenter . remap: every pair of face-centred remaps around the public recomputation of the source's centres
    rc = len(CALLS) - 1
    facecalls = [i for i, c in enumerate(CALLS) if c[3] == "n_face"]
    for first in facecalls:
        out.append({"kind": "calls", "src": "centres:pyr5", "dst": "mixedpatch", "first": first, "depth": 3, "middle": rc, "alphabet": facecalls, "tier": tier})
    return out


CALLS = [(me, co, rt, el) for me in ("nn", "idw") for co in ("spherical", "cartesian") for rt in ("nodes", "edge centers", "face centers") for el in ("n_node", "n_edge", "n_face")]
# a public update of the SOURCE grid's face centres between two remaps (from then on face-centred data live at the new centres)
CALLS.append(("recenter", None, None, None))


def _run_calls(case, res):
    V = res["violations"]
    pool.fresh()
    gs_ref, _ = _grid(case["src"])
    gd_ref, _ = _grid(case["dst"])
    Dpos = {rt: _pos(gd_ref, rt) for rt in DEST}
    Spos = {el: _pos(gs_ref, KIND[el]) for el in KIND}
    dist = {(rt, el): sph.angle(Dpos[rt][:, None, :], Spos[el][None, :, :]) for rt in DEST for el in KIND}
    if case.get("middle") is not None:
        rests = [(case["middle"], c) for c in case["alphabet"]]  # first . middle . c
    else:
        rests = itertools.product(range(len(CALLS)), repeat=case["depth"] - 1)
    for rest in rests:
        seq = (case["first"],) + tuple(rest)
        if "only" in case and list(seq) != case["only"]["seq"]:
            continue
        focus = dict(case, only={"seq": list(seq)})
        pool.fresh()
        gs, _ = _grid(case["src"])
        gd, _ = _grid(case["dst"])
        res["evaluations"] += 1
        key = digest((case["src"], case["dst"], "calls", seq))
        res["states"].append(key)
        if len(set(seq)) > 1:
            res["nontrivial"].append(key)
        recentred = False
        for step, ci in enumerate(seq):
            me, co, rt, el = CALLS[ci]
            if me == "recenter":
                gs.construct_face_centers("cartesian average")
                # from now on the reference positions of face-centred data are the centres THIS grid reports (whether the call recomputed
                # them or kept supplied ones depends on the grid's history; that is not this property's business)
                recentred = True
                now = _pos(gs, "face centers")
                dist_now = {r_: sph.angle(Dpos[r_][:, None, :], now[None, :, :]) for r_ in DEST}
                res["transitions"] += 1
                continue
            dd = dist_now[rt] if (recentred and el == "n_face") else dist[(rt, el)]
            n_src = dd.shape[1]
            if me == "idw" and n_src < 2:
                continue
            res["transitions"] += 1
            try:
                if me == "nn":
                    o = np.asarray(build.uxda(gs, np.arange(n_src, dtype=float), el).remap.nearest_neighbor(gd, remap_to=rt, coord_type=co).values, dtype=float)
                    ch = np.rint(o).astype(int)
                    ok = o.shape == (dd.shape[0],) and np.all((ch >= 0) & (ch < n_src)) and np.all(dd[np.arange(dd.shape[0]), np.clip(ch, 0, n_src - 1)] <= dd.min(axis=1) + 1e-9)
                else:
                    e0 = np.zeros(n_src)
                    e0[0] = 1.0
                    o = np.asarray(build.uxda(gs, e0, el).remap.inverse_distance_weighted(gd, remap_to=rt, coord_type=co, k=2).values, dtype=float)
                    d2 = np.sort(dd, axis=1)[:, 1]
                    ok = o.shape == (dd.shape[0],) and not np.any((o > 1e-15) & (dd[:, 0] > d2 + 1e-9)) and np.all((o >= -1e-12) & (o <= 1 + 1e-12))
            except Exception as e:
                ok, o = False, repr(e)
            if not ok:
                V.append({"oracle": "remap", "sig": "c12:calls:%s:%s" % (me, "first-call" if step == 0 else "wrong-after-other-call"), "msg": "%s -> %s (same two Grid objects), calls %s: call %d is wrong: %s" % (case["src"], case["dst"], [CALLS[i] for i in seq], step, o if isinstance(o, str) else np.round(o, 6).tolist()), "focus": focus})
                break
        res["outcomes"].append(digest(seq[-1]))
    res["axes"] = {"call_history_depth": {str(case["depth"]): res["evaluations"]}}
    res["sample"] = {"kind": "calls", "src": case["src"], "dst": case["dst"], "first": list(CALLS[case["first"]])}
    return res


def selftest_case(tier):
    return {"src": "mixedpatch", "dst": "cube", "tier": "quick"}


def warmup(tier):
    run_case({"src": "single3", "dst": "tetra", "tier": "quick"})


def run_case(case):
    import uxarray as ux

    res = {"violations": [], "evaluations": 0, "transitions": 0, "nontrivial": [], "outcomes": [], "axes": {}, "states": []}
    V = res["violations"]
    tier = case["tier"]
    if case.get("kind") == "calls":
        return _run_calls(case, res)
    for elem in ("n_node", "n_edge", "n_face"):
        for remap_to in DEST:
            for coord in ("spherical", "cartesian"):
                foc = {"elem": elem, "remap_to": remap_to, "coord": coord}
                if "only" in case and {k: case["only"].get(k) for k in foc} != foc:
                    continue
                pool.fresh()
                gs_ref, ms = _grid(case["src"])
                gd_ref, md = _grid(case["dst"])
                S = _pos(gs_ref, KIND[elem])
                D = _pos(gd_ref, remap_to)
                dist = sph.angle(D[:, None, :], S[None, :, :])  # (n_dst, n_src)
                n_src, n_dst = len(S), len(D)

                def bad(sig, msg, extra=None, foc=foc):
                    V.append({"oracle": "remap", "sig": sig, "msg": "%s -> %s, %s data to %s (%s): %s" % (case["src"], case["dst"], elem, remap_to, coord, msg), "focus": dict(case, only=dict(foc, **(extra or {})))})

                key = digest((case["src"], case["dst"], elem, remap_to, coord))
                res["states"].append(key)
                if case["src"] != case["dst"]:
                    res["nontrivial"].append(key)
                gs, _ = _grid(case["src"])
                gd, _ = _grid(case["dst"])
                # ---------------- nearest neighbour ----------------
                dmin = dist.min(axis=1)
                allowed = dist <= dmin[:, None] + 1e-9
                ident = np.arange(n_src, dtype=float)
                for lead in ((), (2,), (2, 3)):
                    data = build.lead_expand(ident, lead)
                    da = build.uxda(gs, data, elem, lead, name="v")
                    res["evaluations"] += 1
                    res["transitions"] += 1
                    try:
                        out = da.remap.nearest_neighbor(gd, remap_to=remap_to, coord_type=coord)
                    except Exception as e:
                        bad("c12:nn:raises:%s" % type(e).__name__, "nearest_neighbor raised %r (n_src=%d, n_dst=%d, lead=%s)" % (e, n_src, n_dst, lead))
                        continue
                    want_dims = tuple("d%d" % i for i in range(len(lead))) + (DEST[remap_to],)
                    if not isinstance(out, ux.UxDataArray):
                        bad("c12:nn:type", "result is %s" % type(out).__name__)
                        continue
                    if tuple(out.dims) != want_dims:
                        bad("c12:nn:dims", "dims %s, expected %s" % (out.dims, want_dims))
                    if out.uxgrid is not gd:
                        bad("c12:nn:grid", "result is not attached to the destination grid")
                    v = np.asarray(out.values, dtype=float)
                    if v.shape != tuple(lead) + (n_dst,):
                        bad("c12:nn:shape", "shape %s, expected %s" % (v.shape, tuple(lead) + (n_dst,)))
                        continue
                    first = v[(0,) * len(lead)] if lead else v
                    chosen = np.rint(first).astype(int)
                    if np.any(chosen < 0) or np.any(chosen >= n_src) or np.any(np.abs(first - chosen) > 1e-12):
                        bad("c12:nn:invented-value", "values %s are not values of the source field" % first.tolist()[:8])
                        continue
                    okk = allowed[np.arange(n_dst), chosen]
                    if not okk.all():
                        j = int(np.argmin(okk))
                        bad("c12:nn:not-nearest:%s" % ("sizes-coincide" if len({gs_ref.n_node, gs_ref.n_edge, gs_ref.n_face}) < 3 else "plain"), "destination element %d received the value of source element %d at great-circle distance %.6f, nearest source element of that kind is %d at %.6f" % (j, chosen[j], dist[j, chosen[j]], int(np.argmin(dist[j])), dmin[j]))
                        continue
                    if lead:
                        wantfull = build.lead_expand(ident, lead)[..., chosen]
                        if not np.array_equal(v, wantfull):
                            bad("c12:nn:leading-dims", "leading-dimension slices were not remapped with the same element selection")
                    res["outcomes"].append(digest(chosen))
                # ones / generic through NN: values must come from the source
                gen = build.generic_field(n_src)
                try:
                    o = np.asarray(build.uxda(gs, gen, elem).remap.nearest_neighbor(gd, remap_to=remap_to, coord_type=coord).values)
                    if not np.all(np.isin(np.round(np.atleast_1d(o), 12), np.round(gen, 12))):
                        bad("c12:nn:invented-value", "generic field: output contains values not present in the source")
                except Exception:
                    pass
                # identity on self remap
                if case["src"] == case["dst"] and KIND[elem] == remap_to:
                    try:
                        o = np.asarray(build.uxda(gs, gen, elem).remap.nearest_neighbor(gs, remap_to=remap_to, coord_type=coord).values)
                        if not np.array_equal(np.atleast_1d(o), gen):
                            bad("c12:nn:self-remap-not-identity", "remapping onto the source grid's own elements changed the field")
                    except Exception as e:
                        bad("c12:nn:self-remap-raises:%s" % type(e).__name__, repr(e))
                # ---------------- inverse distance weighted ----------------
                kp = [(2, 2), (3, 1), (n_src, 5)] if tier == "quick" else [(k, p) for k in (2, 3, n_src) for p in (1, 2, 5)]
                for k, power in kp:
                    if k < 2 or k > n_src:
                        continue
                    if k > gs_ref.n_node:
                        continue  # the library's documented admissibility bound
                    ex = {"k": k, "power": power}
                    if "only" in case and case["only"].get("k") is not None and (case["only"].get("k"), case["only"].get("power")) != (k, power):
                        continue
                    W = np.zeros((n_dst, n_src))
                    failed = False
                    for i in range(n_src):
                        e = np.zeros(n_src)
                        e[i] = 1.0
                        try:
                            o = build.uxda(gs, e, elem).remap.inverse_distance_weighted(gd, remap_to=remap_to, coord_type=coord, power=power, k=k)
                            W[:, i] = np.asarray(o.values, dtype=float).reshape(n_dst)
                        except Exception as ee:
                            bad("c12:idw:raises:%s" % type(ee).__name__, "inverse_distance_weighted(k=%d, power=%d) raised %r (n_src=%d, n_dst=%d)" % (k, power, ee, n_src, n_dst), ex)
                            failed = True
                            break
                    res["evaluations"] += n_src
                    res["transitions"] += n_src
                    if failed:
                        continue
                    if np.any(W < -1e-12):
                        bad("c12:idw:negative-weight", "k=%d power=%d: weight %.3g" % (k, power, W.min()), ex)
                    if np.any(np.abs(W.sum(axis=1) - 1.0) > 1e-9):
                        bad("c12:idw:weights-not-normalised", "k=%d power=%d: row sums %s" % (k, power, W.sum(axis=1).tolist()[:5]), ex)
                    ds = np.sort(dist, axis=1)
                    dk = ds[:, k - 1]
                    sup = W > 1e-15
                    if np.any(sup & (dist > dk[:, None] + 1e-9)):
                        j, i = [int(x) for x in np.argwhere(sup & (dist > dk[:, None] + 1e-9))[0]]
                        bad("c12:idw:support-not-k-nearest", "k=%d power=%d: destination %d gives weight %.3g to source %d at distance %.6f, the %d-th nearest is at %.6f" % (k, power, j, W[j, i], i, dist[j, i], k, dk[j]), ex)
                    elif np.any(sup.sum(axis=1) > k):
                        bad("c12:idw:support-too-large", "k=%d: a destination uses %d sources" % (k, int(sup.sum(axis=1).max())), ex)
                    else:
                        for j in range(n_dst):
                            idx = np.nonzero(dist[j] <= dk[j] + 1e-9)[0]
                            o = idx[np.argsort(dist[j, idx])]
                            dd, ww = dist[j, o], W[j, o]
                            viol = [(a, b) for a in range(len(o)) for b in range(len(o)) if dd[a] < dd[b] - 1e-7 and ww[a] < ww[b] - 1e-12]
                            if viol:
                                a, b = viol[0]
                                bad("c12:idw:weights-increase-with-distance", "k=%d power=%d destination %d: source at %.6f has weight %.4g, farther source at %.6f has %.4g" % (k, power, j, dd[a], ww[a], dd[b], ww[b]), ex)
                                break
                    # constants and leading dims
                    for lead, dkind in (((), "float"), ((2, 3), "float"), ((), "int"), ((2,), "const-int")):
                        data = build.lead_expand(gen, lead)
                        if dkind == "int":
                            data = np.rint(data * 9).astype(np.int64)  # integer-typed variables (counts, category indices): still a convex combination
                        elif dkind == "const-int":
                            data = np.full(data.shape, -5, dtype=np.int64)  # a constant field is reproduced whatever its dtype
                        try:
                            o = build.uxda(gs, data, elem, lead, name="v").remap.inverse_distance_weighted(gd, remap_to=remap_to, coord_type=coord, power=power, k=k)
                            ov = np.asarray(o.values, dtype=float)
                            want = data @ W.T
                            if ov.shape != want.shape or not np.allclose(ov, want, rtol=0, atol=1e-9):
                                bad("c12:idw:not-linear-in-data" + ("" if dkind == "float" else ":" + dkind), "k=%d power=%d lead=%s %s data: result is not the weight matrix applied to the data (max deviation %s)" % (k, power, lead, dkind, float(np.max(np.abs(ov - want))) if ov.shape == want.shape else "shape"), ex)
                            want_dims = tuple("d%d" % i for i in range(len(lead))) + (DEST[remap_to],)
                            if tuple(o.dims) != want_dims or o.uxgrid is not gd:
                                bad("c12:idw:dims-or-grid", "dims %s expected %s" % (o.dims, want_dims), ex)
                        except Exception as ee:
                            bad("c12:idw:raises:%s" % type(ee).__name__, "lead=%s: %r" % (lead, ee), ex)
                    res["outcomes"].append(digest(np.round(W, 9)))
    # ---------------- histories: several variables remapped between the SAME two grid objects ----------------
    if "only" not in case or case["only"].get("shared"):
        for remap_to in DEST:
            for coord in ("spherical", "cartesian"):
                for method in ("nn", "idw"):
                    for order in itertools.permutations(("n_node", "n_edge", "n_face")):
                        foc = {"shared": True, "remap_to": remap_to, "coord": coord, "method": method, "order": list(order)}
                        if "only" in case and foc != case["only"]:
                            continue
                        pool.fresh()
                        gs_ref, _ = _grid(case["src"])
                        gd_ref, _ = _grid(case["dst"])
                        D = _pos(gd_ref, remap_to)
                        gs, _ = _grid(case["src"])
                        gd, _ = _grid(case["dst"])
                        for elem in order:
                            S = _pos(gs_ref, KIND[elem])
                            dist = sph.angle(D[:, None, :], S[None, :, :])
                            n_src = len(S)
                            if method == "idw" and (n_src < 2 or 2 > gs_ref.n_node):
                                continue
                            ident = np.arange(n_src, dtype=float)
                            res["evaluations"] += 1
                            res["transitions"] += 1
                            try:
                                if method == "nn":
                                    o = np.asarray(build.uxda(gs, ident, elem).remap.nearest_neighbor(gd, remap_to=remap_to, coord_type=coord).values, dtype=float)
                                    ch = np.rint(o).astype(int)
                                    ok = o.shape == (len(D),) and np.all((ch >= 0) & (ch < n_src)) and np.all(dist[np.arange(len(D)), np.clip(ch, 0, n_src - 1)] <= dist.min(axis=1) + 1e-9)
                                else:
                                    e0 = np.zeros(n_src)
                                    e0[0] = 1.0
                                    o = np.asarray(build.uxda(gs, e0, elem).remap.inverse_distance_weighted(gd, remap_to=remap_to, coord_type=coord, k=2).values, dtype=float)
                                    d2 = np.sort(dist, axis=1)[:, 1]
                                    ok = o.shape == (len(D),) and not np.any((o > 1e-15) & (dist[:, 0] > d2 + 1e-9))
                            except Exception as e:
                                ok = False
                                o = repr(e)
                            if not ok:
                                V.append({"oracle": "remap", "sig": "c12:history:%s:wrong-after-other-variable" % method, "msg": "%s -> %s (same two Grid objects), variables remapped in the order %s to %s (%s): the %s variable is wrong after the earlier remaps: %s" % (case["src"], case["dst"], list(order), remap_to, coord, elem, str(o)[:200]), "focus": dict(case, only=foc)})
                                break
                        key = digest((case["src"], case["dst"], "shared", remap_to, coord, method, order))
                        res["states"].append(key)
                        res["nontrivial"].append(key)
    res["axes"] = {"pair": {"%s->%s" % (case["src"], case["dst"]): res["evaluations"]}}
    res["sample"] = dict(case)
    return res


def run(ctx):
    ctx.map(run_case, cases(ctx.tier))
