"""C03 -- Incidence tables are exact transposes of one another.

Explorer I, complete scope over *manifold* tables (each edge bounded by at most
two faces), catalogue meshes with every face subset, index deviations, and all
first-access orders of the six observables.
"""

import itertools

import numpy as np

from vf.alpha import meshes
from vf.core import pool
from vf.core.state import digest
from vf.oracle import conn
from vf.props.c02 import FILL, LAT, LON, mkgrid, scope_blocks

ID = "C03"
RULE = (
    "(a) every manifold table of n_face rows over n_node nodes (rows = all sequences of 3..W distinct nodes); "
    "(b) catalogue meshes + every non-empty face subset (<= 9 faces; isolated faces, holes, corner-touching faces, "
    "valence 1..8) under relabelling / face-order / start-corner deviations <= k, compact and non-compact node sets; "
    "(c) all 6! first-access orders of {node_face, edge_face, face_face, hole_edge_indices, n_max_node_faces, "
    "n_max_face_faces}; (d) grids whose source supplies edge tables in a different edge order (from_topology kwargs), built in pristine module state and after another grid "
    "(of different / of the same size) derived its own edge tables in the same process; (e) grids read from MPAS (all / minimal optional tables, junk padding) and ICON sources written by the harness, which supply node_face / face_edge / edge_face / face_face themselves. "
    "non-trivial = >= 2 faces with at least one shared node, or an isolated face present; distinct = table content"
)
ASSUMPTIONS = [
    "grids are built with Grid.from_topology from standard-form tables",
    "only manifold tables are generated (decided by the harness's set model)",
    "for multiply-shared edges between the same two faces, face_face lists the neighbour once per shared edge",
]
BOUNDS_NOTE = "plus an interpreted pass (NUMBA_DISABLE_JIT=1, spawned interpreters) over catalogue meshes and the subsets of one (quick) / four (thorough) of them"
BOUNDS = {
    "quick": "(a) n_node<=5,n_face<=2,sizes 3..5; n_node<=4,n_face=3; (b) deviations<=1, subsets of meshes <=7 faces; (c) 720 orders x 3 meshes; (d) 6 meshes x 3 edge orders",
    "thorough": "(a) plus n_node=6,n_face=2,sizes 3..6 and n_node=5,n_face=3,triangles; (b) deviations<=2 (meshes <= 9 faces), subsets of meshes <=9 faces; (c) 720 orders x 6 meshes; (d) 12 meshes x 3 edge orders",
}
OBS = ["node_face_connectivity", "edge_face_connectivity", "face_face_connectivity", "hole_edge_indices", "n_max_node_faces", "n_max_face_faces"]


def cases(tier):
    out = []
    out += scope_blocks(5, 1, (3, 4, 5), (5,), 1)
    out += scope_blocks(5, 2, (3, 4, 5), (5, 6), 48)
    out += scope_blocks(4, 3, (3, 4), (4,), 48)
    if tier == "thorough":
        out += scope_blocks(6, 2, (3, 4, 5, 6), (6,), 96)
        out += scope_blocks(5, 3, (3,), (3,), 60)  # all triples of triangles over 5 nodes (the 3..4 mix over 5 nodes is 5.8M triples: too slow)
    cat = meshes.catalog()
    k = 1 if tier == "quick" else 2
    for name, m in cat.items():
        kk = k if m.n_face <= 9 else 1
        out.append({"kind": "mesh", "mesh": name, "k": kk})
        if m.n_face <= (7 if tier == "quick" else 9) and m.n_face > 1:
            out.append({"kind": "subsets", "mesh": name})
    for name in (["cubesplit", "mixedpatch", "isolated"] if tier == "quick" else ["cubesplit", "mixedpatch", "isolated", "pyr5", "amstrip", "cornertouch"]):
        for blk in range(6):
            out.append({"kind": "orders", "mesh": name, "first": blk})
    sup = ["cubesplit", "mixedpatch", "isolated", "pyr6", "amstrip", "tetra"]
    if tier == "thorough":
        sup += ["cube", "prism", "polecap", "cornertouch", "pyr8", "icosa"]
    for name in sup:
        out.append({"kind": "supplied", "mesh": name})
    # sources that ship their own tables through the MPAS / ICON readers
    for name in (["pyr5", "mixedpatch", "cube", "polefan"] if tier == "quick" else ["pyr5", "mixedpatch", "cube", "polefan", "tetra", "icosa", "amstrip", "cubesplit", "isolated", "octa"]):
        out.append({"kind": "reader", "mesh": name})
    return out


def selftest_case(tier):
    return {"kind": "mesh", "mesh": "mixedpatch", "k": 1}


def warmup(tier):
    run_case({"kind": "mesh", "mesh": "single3", "k": 0})
    run_case({"kind": "mesh", "mesh": "isolated", "k": 0})


def _nontrivial(faces):
    if len(faces) < 2:
        return False
    nodes = [set(f) for f in faces]
    shared = any(nodes[i] & nodes[j] for i in range(len(faces)) for j in range(i + 1, len(faces)))
    isolated = any(not any(nodes[i] & nodes[j] for j in range(len(faces)) if j != i) for i in range(len(faces)))
    return shared or isolated


def _check(faces, width, n_node, res, focus, lon=LON, lat=LAT):
    if not conn.manifold(faces):
        res["skipped"] = res.get("skipped", 0) + 1
        return
    try:
        g = mkgrid(faces, width, n_node, lon, lat)
    except Exception as e:
        res["violations"].append({"oracle": "construct", "sig": "c03:construct:%s" % type(e).__name__, "msg": repr(e), "focus": focus})
        return
    v = conn.check_c03(g, faces, n_node)
    res["evaluations"] += 1
    res["transitions"] += len(OBS)
    key = digest((faces, width))
    res["states"].append(key)
    if _nontrivial(faces):
        res["nontrivial"].append(key)
    try:
        res["outcomes"].append(digest((g.node_face_connectivity.values, g.edge_face_connectivity.values, np.asarray(g.face_face_connectivity.values))))
    except Exception:
        pass
    for it in v.items:
        res["violations"].append(dict(it, focus=focus))


def _new():
    return {"violations": [], "evaluations": 0, "transitions": 0, "nontrivial": [], "outcomes": [], "axes": {}, "states": []}


def run_case(case):
    import os

    if case.get("jit") == "off" and os.environ.get("NUMBA_DISABLE_JIT") != "1":
        # interpreted numba kernels: a fresh interpreter with NUMBA_DISABLE_JIT=1 (the switch is read at import time)
        from vf.core import subrun

        r = subrun.run("vf.props.c03", [case], {"NUMBA_DISABLE_JIT": "1"}, nproc=1)[0]
        r.pop("_case", None)
        return _mark_jitoff(r)
    import uxarray as ux

    res = _new()
    kind = case["kind"]
    if kind == "scope":
        rows = conn.all_rows(case["n_node"], case["sizes"])
        i0, i1 = case["block"]
        nf = case["n_face"]
        sz = {}
        only = case.get("only")
        faces = None
        for r0 in rows[i0:i1]:
            for rest in itertools.product(rows, repeat=nf - 1):
                faces = [tuple(r0)] + [tuple(r) for r in rest]
                if only is not None and [list(f) for f in faces] != only:
                    continue
                n0 = res["evaluations"]
                _check(faces, case["width"], case["n_node"], res, {"kind": "scope", "n_node": case["n_node"], "sizes": case["sizes"], "n_face": nf, "width": case["width"], "block": [0, len(rows)], "only": [list(f) for f in faces]})
                if res["evaluations"] > n0:
                    k = "-".join(map(str, sorted(len(f) for f in faces)))
                    sz[k] = sz.get(k, 0) + 1
        res["axes"] = {"scope_sizes": sz, "non_manifold_skipped": {"n": res.pop("skipped", 0)}}
        res["sample"] = {"kind": "scope", "table": [list(f) for f in (faces or [])], "width": case["width"]}
        return res
    mesh = meshes.get(case["mesh"])
    lon, lat = mesh.lonlat()
    if kind == "mesh":
        d = None
        for d, m in meshes.deviations(mesh, case["k"]):
            if "only" in case and d != case["only"]:
                continue
            lo, la = m.lonlat()
            _check(m.faces, m.width, m.n_node, res, {"kind": "mesh", "mesh": case["mesh"], "k": case["k"], "only": d}, lo, la)
        res["axes"] = {"mesh": {case["mesh"]: res["evaluations"]}, "deviations": {case["k"]: res["evaluations"]}}
        res["sample"] = {"kind": "mesh", "mesh": case["mesh"], "deviation": d}
        res.pop("skipped", None)
        return res
    if kind == "subsets":
        F = mesh.n_face
        ids = None
        for mask in range(1, 2 ** F):
            ids = [i for i in range(F) if mask >> i & 1]
            if "only" in case and ids != case["only"]:
                continue
            for compact in (True, False):
                m = mesh.subset(ids, compact=compact)
                lo, la = m.lonlat()
                _check(m.faces, m.width, m.n_node, res, {"kind": "subsets", "mesh": case["mesh"], "only": ids, "compact": compact}, lo, la)
        res["axes"] = {"subsets_of": {case["mesh"]: res["evaluations"]}}
        res["sample"] = {"kind": "subsets", "mesh": case["mesh"], "faces": ids}
        res.pop("skipped", None)
        return res
    if kind == "orders":
        # reference = canonical order on a fresh grid
        g = mkgrid(mesh.faces, mesh.width, mesh.n_node, lon, lat)
        ref = {o: digest(np.asarray(getattr(getattr(g, o), "values", getattr(g, o)))) for o in OBS}
        order = None
        for order in itertools.permutations(range(len(OBS))):
            if order[0] != case["first"]:
                continue
            if "only" in case and list(order) != case["only"]:
                continue
            focus = {"kind": "orders", "mesh": case["mesh"], "first": case["first"], "only": list(order)}
            g = mkgrid(mesh.faces, mesh.width, mesh.n_node, lon, lat)
            vals = {}
            try:
                for i in order:
                    x = getattr(g, OBS[i])
                    vals[OBS[i]] = digest(np.asarray(getattr(x, "values", x)))
            except Exception as e:
                res["violations"].append({"oracle": "orders", "sig": "c03:orders:raises:%s" % type(e).__name__, "msg": "order %s: %r" % ([OBS[i] for i in order], e), "focus": focus})
                continue
            res["evaluations"] += 1
            res["transitions"] += len(OBS)
            res["nontrivial"].append(digest((case["mesh"], order)))
            res["states"].append(digest(sorted(vals.items())))
            v = conn.check_c03(g, mesh.faces, mesh.n_node)
            for it in v.items:
                res["violations"].append(dict(it, focus=focus))
            if vals != ref:
                diff = [k for k in vals if vals[k] != ref[k]]
                res["violations"].append({"oracle": "orders", "sig": "c03:orders:order-dependent:%s" % "+".join(diff), "msg": "first-access order %s gives different %s" % ([OBS[i] for i in order], diff), "focus": focus})
            res["outcomes"].append(digest(sorted(vals.items())))
        res["axes"] = {"orders_on": {case["mesh"]: res["evaluations"]}}
        res["sample"] = {"kind": "orders", "mesh": case["mesh"], "order": [OBS[i] for i in order]}
        return res
    if kind == "reader":
        from vf.alpha import dialects as D

        for fmt, kw in (("mpas", {"optional": "all"}), ("mpas", {"optional": "minimal"}), ("mpas", {"optional": "all", "padding": "junk"}), ("mpas", {"optional": "all", "padding": "repeat-last", "dtype": "int64"}), ("icon", {}), ("icon", {"dtype": "int64"})):
            if "only" in case and [fmt, kw] != case["only"]:
                continue
            focus = {"kind": "reader", "mesh": case["mesh"], "only": [fmt, kw]}
            pool.fresh()
            r = D.mpas(mesh, **kw) if fmt == "mpas" else D.icon(mesh, **kw)
            if r is None:
                continue
            try:
                g = ux.open_grid(r[0])
            except Exception as e:
                res["violations"].append({"oracle": "construct", "sig": "c03:reader-%s:open:%s" % (fmt, type(e).__name__), "msg": repr(e), "focus": focus})
                continue
            v = conn.V()
            if conn.manifold(mesh.faces):
                # tables supplied by the source keep the source's slot layout (ICON lists neighbours per edge slot)
                conn.check_c03(g, mesh.faces, mesh.n_node, v, suffix_required=False)
            conn.check_c02(g, mesh.faces, mesh.n_node, mesh.width, mesh.closed, v)
            res["evaluations"] += 1
            res["transitions"] += len(OBS) + 5
            key = digest((case["mesh"], fmt, sorted(kw.items())))
            res["states"].append(key)
            res["nontrivial"].append(key)
            res["outcomes"].append(digest(np.asarray(g.edge_face_connectivity.values)) if not v.items else "x")
            for it in v.items:
                res["violations"].append(dict(it, sig=it["sig"].replace("c03:", "c03:reader-%s:" % fmt, 1).replace("c02:", "c03:reader-%s:c02-" % fmt, 1), msg="%s source (%s): %s" % (fmt, kw, it["msg"]), focus=focus))
        res["axes"] = {"reader_sources_on": {case["mesh"]: res["evaluations"]}}
        res["sample"] = {"kind": "reader", "mesh": case["mesh"]}
        return res
    if kind == "supplied":
        # source supplies edge_node_connectivity in its own (shuffled / reversed) edge order,
        # optionally with face_edge + edge_face in that numbering: derived tables must follow it.
        E = conn.edge_model(mesh.faces)
        keys = sorted(E, key=lambda k: sorted(k))
        variants = {
            "reversed": list(reversed(keys)),
            "rotated": keys[len(keys) // 2:] + keys[: len(keys) // 2],
            "swapped-ends": keys,
        }
        for vname, order in variants.items():
            if "only" in case and vname != case["only"]:
                continue
            focus = {"kind": "supplied", "mesh": case["mesh"], "only": vname}
            en = np.array([sorted(k, reverse=(vname == "swapped-ends")) for k in order], dtype=np.intp)
            for with_fe, prior in ((False, None), (True, None), (False, "cs2"), (False, "same-size"), (True, "cs2")):
                kw = {"edge_node_connectivity": en}
                if with_fe:
                    idx = {k: i for i, k in enumerate(order)}
                    fe = np.full((mesh.n_face, mesh.width), FILL, dtype=np.intp)
                    for fi, f in enumerate(mesh.faces):
                        for j in range(len(f)):
                            fe[fi, j] = idx[frozenset((f[j], f[(j + 1) % len(f)]))]
                    kw["face_edge_connectivity"] = fe
                try:
                    pool.fresh()  # every execution starts from import-time module state
                    if prior:
                        # another grid derived its own edge tables earlier in the same process
                        pm = meshes.get("cs2") if prior == "cs2" else mesh.reorder_faces(list(range(mesh.n_face))[::-1])
                        pg = mkgrid(pm.faces, pm.width, pm.n_node, *pm.lonlat())
                        pg.edge_node_connectivity, pg.face_edge_connectivity, pg.edge_face_connectivity
                    g = ux.Grid.from_topology(lon.copy(), lat.copy(), mesh.table(), fill_value=FILL, **kw)
                except Exception as e:
                    res["violations"].append({"oracle": "construct", "sig": "c03:supplied:construct:%s" % type(e).__name__, "msg": repr(e), "focus": focus})
                    continue
                v = conn.V()
                conn.check_c03(g, mesh.faces, mesh.n_node, v)
                conn.check_c02(g, mesh.faces, mesh.n_node, mesh.width, mesh.closed, v)
                got = np.asarray(g.edge_node_connectivity.values)
                if got.shape != en.shape or [frozenset(r) for r in got.tolist()] != [frozenset(r) for r in en.tolist()]:
                    v.add("supplied", "c03:edge_node-not-carried-over", "the edge numbering supplied by the source was replaced while deriving the other tables (edge-centred source data/coordinates are now misaligned)")
                res["evaluations"] += 1
                res["transitions"] += len(OBS) + 5
                key = digest((case["mesh"], vname, with_fe, prior))
                res["states"].append(key)
                res["nontrivial"].append(key)
                res["outcomes"].append(digest(np.asarray(g.edge_face_connectivity.values)) if not v.items else "x")
                for it in v.items:
                    res["violations"].append(dict(it, sig=it["sig"].replace("c03:", "c03:supplied-%s%s:" % ("en+fe" if with_fe else "en", "-after-other-grid" if prior else ""), 1).replace("c02:", "c03:supplied-%s%s:c02-" % ("en+fe" if with_fe else "en", "-after-other-grid" if prior else ""), 1), focus=focus))
        res["axes"] = {"supplied_on": {case["mesh"]: res["evaluations"]}}
        res["sample"] = {"kind": "supplied", "mesh": case["mesh"], "edge_order": "reversed"}
        return res
    raise ValueError(kind)


def jitoff_cases(tier):
    quick = tier == "quick"
    names = ["mixedpatch", "cubesplit", "pyr5", "isolated", "tetra"] if quick else list(meshes.catalog())
    out = [{"kind": "mesh", "mesh": n, "k": 0 if quick else 1, "jit": "off"} for n in names]
    out += [{"kind": "subsets", "mesh": n, "jit": "off"} for n in (["cubesplit"] if quick else ["cubesplit", "prism", "pyr5", "tetra"])]
    return out


def _mark_jitoff(r):
    for v in r.get("violations", []):
        if ":jit-off:" not in v["sig"]:
            v["sig"] = v["sig"].replace("c03:", "c03:jit-off:", 1)
            v["msg"] = "[NUMBA_DISABLE_JIT=1] " + v["msg"]
        if isinstance(v.get("focus"), dict):
            v["focus"]["jit"] = "off"
    return r


def run(ctx):
    ctx.map(run_case, cases(ctx.tier))
    # the same tables with the numba kernels interpreted (NUMBA_DISABLE_JIT=1), in spawned interpreters
    from vf.core import subrun

    results = subrun.run("vf.props.c03", jitoff_cases(ctx.tier), {"NUMBA_DISABLE_JIT": "1"}, nproc=min(8, ctx.nproc))
    n = 0
    for r in results:
        c = r.pop("_case")
        ctx.add(c, _mark_jitoff(r))
        n += r["evaluations"]
    ctx.extra["jit_off_pass"] = {"cases": len(results), "evaluations": n}
    from vf.core.runner import Vacuous

    if not ctx.axes.get("scope_sizes") or len(ctx.axes["scope_sizes"]) < 4:
        raise Vacuous("size mixes not exercised")


BOUNDS = {k: v + "; " + BOUNDS_NOTE for k, v in BOUNDS.items()}
