"""C20 -- Grid equality distinguishes any difference in coordinates or connectivity.

Explorer I, complete scope: for each base grid, *every* single-entry
perturbation (each longitude, each latitude, each connectivity entry -> another
node / -> fill, one node more, one face more / fewer, another source spec), a
second construction and a copy; all ordered pairs among them are compared with
``==`` and ``!=`` against the definition evaluated on the harness-side arrays.
"""

import numpy as np

from vf.alpha import meshes
from vf.core.state import digest

ID = "C20"
RULE = (
    "for each base mesh: variants = {same, rebuilt, copy(), copy() with one lon / lat / connectivity entry overwritten in place, grids built successively from the same connectivity array object edited in place in between, the same corners given as Cartesian face vertices with node_lat / node_lon / node_x read first} + every single-entry perturbation of lon, lat (by 0.25 deg; and by one ulp, 1e-9, 1e-6 deg), "
    "the plain variants again with lazily derived quantities materialised on one side only (edge tables / node_face / everything), "
    "face-node table (to another valid node; to fill), +1 node, +1/-1 face, other source spec; all ordered pairs "
    "(i, j) are compared; non-trivial = pairs whose two members differ in exactly one component or are equal-by-content "
    "but distinct objects; distinct = (base, i, j)"
)
ASSUMPTIONS = [
    "grids are built with Grid.from_topology / Grid.from_dataset(source_grid_spec=...) from harness arrays",
    "expected verdict = same spec and lon, lat, connectivity arrays identical (numpy array_equal on the inputs)",
]
BOUNDS = {
    "quick": "6 base meshes, all single-entry perturbations, all ordered pairs",
    "thorough": "12 base meshes, all single-entry perturbations, all ordered pairs, plus all pairs across bases",
}

BASES = {
    "quick": ["single3", "tetra", "cubesplit", "mixedpatch", "amstrip", "pyr5"],
    "thorough": ["single3", "tetra", "cubesplit", "mixedpatch", "amstrip", "pyr5", "cube", "octa", "prism", "polecap", "isolated", "pyr8"],
}
FILL = meshes.INT_FILL


def variants(mesh):
    """list of (descr, spec, lon, lat, table)."""
    lon, lat = mesh.lonlat()
    tab = mesh.table()
    S = "User Defined Topology"
    out = [({"v": "base"}, S, lon, lat, tab), ({"v": "rebuilt"}, S, lon.copy(), lat.copy(), tab.copy()), ({"v": "copy"}, S, lon, lat, tab)]
    for i in range(len(lon)):
        l2 = lon.copy()
        l2[i] = l2[i] + 0.25 if l2[i] < 170 else l2[i] - 0.25
        out.append(({"v": "lon", "i": i}, S, l2, lat, tab))
        l3 = lat.copy()
        l3[i] = l3[i] + 0.25 if l3[i] < 80 else l3[i] - 0.25
        out.append(({"v": "lat", "i": i}, S, lon, l3, tab))
    nn = len(lon)
    for f in range(tab.shape[0]):
        for j in range(tab.shape[1]):
            t2 = tab.copy()
            if tab[f, j] == FILL:
                t2[f, j] = 0
            else:
                t2[f, j] = (tab[f, j] + 1) % nn
            out.append(({"v": "conn", "f": f, "j": j, "to": int(t2[f, j])}, S, lon, lat, t2))
            if tab[f, j] != FILL:
                t3 = tab.copy()
                t3[f, j] = FILL
                out.append(({"v": "conn-fill", "f": f, "j": j}, S, lon, lat, t3))
    out.append(({"v": "node+1"}, S, np.append(lon, 3.0), np.append(lat, 4.0), tab))
    out.append(({"v": "face+1"}, S, lon, lat, np.vstack([tab, tab[:1]])))
    if tab.shape[0] > 1:
        out.append(({"v": "face-1"}, S, lon, lat, tab[:-1]))
    out.append(({"v": "width+1"}, S, lon, lat, np.hstack([tab, np.full((tab.shape[0], 1), FILL, dtype=tab.dtype)])))
    out.append(({"v": "spec"}, "Other Spec", lon, lat, tab))
    # --- extras (paired with every variant, but not all-pairs among themselves) -----------------
    # tiny coordinate perturbations: one ulp, 1e-9 and 1e-6 degrees
    for i in range(len(lon)):
        for tag, f in (("ulp", lambda x: np.nextafter(x, 1000.0)), ("1e-9", lambda x: x + 1e-9), ("1e-6", lambda x: x - 1e-6)):
            l2 = lon.copy()
            l2[i] = f(l2[i])
            if l2[i] != lon[i]:
                out.append(({"v": "lon-tiny", "i": i, "by": tag, "extra": True}, S, l2, lat, tab))
            l3 = lat.copy()
            l3[i] = f(l3[i])
            if l3[i] != lat[i]:
                out.append(({"v": "lat-tiny", "i": i, "by": tag, "extra": True}, S, lon, l3, tab))
    # same content, but with lazily derived quantities materialised on this object before comparing
    for mat in MATS:
        out.append(({"v": "rebuilt", "mat": mat, "extra": True}, S, lon.copy(), lat.copy(), tab.copy()))
        out.append(({"v": "copy", "mat": mat, "extra": True}, S, lon, lat, tab))
    i0 = 0
    l2 = lon.copy()
    l2[i0] = l2[i0] + 0.25
    out.append(({"v": "lon", "i": i0, "mat": "all", "extra": True}, S, l2, lat, tab))
    # a single entry changed IN PLACE on a copy() of the base grid (the copy must differ, the base must not follow)
    for i in sorted({0, len(lon) - 1}):
        l2 = lon.copy()
        l2[i] = l2[i] + 0.5 if l2[i] < 170 else l2[i] - 0.5
        out.append(({"v": "lon", "i": i, "via": "copy-edit", "extra": True}, S, l2, lat, tab))
        l3 = lat.copy()
        l3[i] = l3[i] + 0.5 if l3[i] < 80 else l3[i] - 0.5
        out.append(({"v": "lat", "i": i, "via": "copy-edit", "extra": True}, S, lon, l3, tab))
    t2 = tab.copy()
    t2[0, 0] = (tab[0, 0] + 1) % nn
    out.append(({"v": "conn", "f": 0, "j": 0, "via": "copy-edit", "extra": True}, S, lon, lat, t2))
    # grids built one after the other from the SAME array objects, edited in place between the two constructions
    # (the content at construction time is what counts, not the identity of the container)
    for f, j in ((0, 0), (tab.shape[0] - 1, 1)):
        t3 = tab.copy()
        t3[f, j] = (tab[f, j] + 1) % nn if tab[f, j] != FILL else 0
        out.append(({"v": "conn", "f": f, "j": j, "via": "same-arrays", "extra": True}, S, lon, lat, t3))
    out.append(({"v": "rebuilt", "via": "same-arrays", "extra": True}, S, lon.copy(), lat.copy(), tab.copy()))
    # the same corner coordinates given as Cartesian face vertices: equal whatever was read first on each object
    for first in ("node_lat", "node_lon", "node_x", "none"):
        out.append(({"v": "face-vertices-xyz", "first": first, "extra": True, "mat": "fv:" + first}, "Face Vertices", lon, lat, tab))
    return out


MATS = {
    "edges": ["edge_node_connectivity", "face_edge_connectivity"],
    "node_face": ["node_face_connectivity"],
    "all": ["edge_node_connectivity", "face_edge_connectivity", "edge_face_connectivity", "node_face_connectivity", "face_face_connectivity", "node_x", "face_lon", "edge_lon", "face_areas", "n_nodes_per_face", "hole_edge_indices"],
}


def build(v, cache):
    import uxarray as ux
    import xarray as xr

    d, spec, lon, lat, tab = v
    if d["v"] == "face-vertices-xyz":
        from vf.oracle import sph as _sph

        P = _sph.ll2xyz(lon, lat)
        verts = [[P[int(i)].tolist() for i in row if i != FILL] for row in tab]
        if len({len(v) for v in verts}) != 1:
            verts = [v for v in verts if len(v) == len(verts[0])]  # from_face_vertices takes faces of one size
        g = ux.Grid.from_face_vertices(verts, latlon=False)
        if d["first"] != "none":
            getattr(g, d["first"])
        return g
    if d.get("via") == "same-arrays":
        # one set of array objects per case, overwritten in place before every construction
        # (only the connectivity table is shared: from_topology standardises it into its own array, whereas coordinate arrays may be
        # adopted without a copy -- no property promises that a grid is a snapshot of arrays its caller keeps editing)
        A = cache.setdefault("same-arrays", {"tab": tab.copy()})
        A["tab"][...] = tab
        return ux.Grid.from_topology(lon.copy(), lat.copy(), A["tab"], fill_value=FILL)
    if d.get("via") == "copy-edit":
        g = cache["base"].copy()
        if d["v"] == "lon":
            g.node_lon.values[d["i"]] = lon[d["i"]]
        elif d["v"] == "lat":
            g.node_lat.values[d["i"]] = lat[d["i"]]
        else:
            g.face_node_connectivity.values[d["f"], d["j"]] = tab[d["f"], d["j"]]
        return g
    if d["v"] == "copy":
        g = cache["base"].copy()
        for a in MATS.get(d.get("mat"), ()):
            getattr(g, a)
        return g
    if spec == "User Defined Topology":
        g = ux.Grid.from_topology(lon.copy(), lat.copy(), tab.copy(), fill_value=FILL)
    else:
        ds = xr.Dataset(
            {
                "node_lon": (("n_node",), lon.copy()),
                "node_lat": (("n_node",), lat.copy()),
                "face_node_connectivity": (("n_face", "n_max_face_nodes"), tab.copy()),
            }
        )
        g = ux.Grid.from_dataset(ds, source_grid_spec=spec)
    if d["v"] == "base":
        cache["base"] = g
    for a in MATS.get(d.get("mat"), ()):
        getattr(g, a)
    return g


def expected_equal(a, b):
    comps = []
    if a[1] != b[1]:
        comps.append("spec")
    if not (a[2].shape == b[2].shape and np.array_equal(a[2], b[2])):
        comps.append("lon")
    if not (a[3].shape == b[3].shape and np.array_equal(a[3], b[3])):
        comps.append("lat")
    if not (a[4].shape == b[4].shape and np.array_equal(a[4], b[4])):
        comps.append("conn")
    return not comps, comps


def cases(tier):
    for name in BASES[tier]:
        yield {"base": name, "other": None}
    if tier == "thorough":
        names = BASES[tier]
        for i, a in enumerate(names):
            for b in names[i + 1:]:
                yield {"base": a, "other": b}


def selftest_case(tier):
    return {"base": "single3", "other": None}


def warmup(tier):
    run_case({"base": "single3", "other": None})


def run_case(case):
    import uxarray as ux
    import xarray as xr

    mesh = meshes.get(case["base"])
    vs = variants(mesh)
    if case.get("other"):
        # cross-base pairs: only the three plain variants of each side
        vs = vs[:2] + [(dict(d, base2=True), s, lo, la, t) for d, s, lo, la, t in variants(meshes.get(case["other"]))[:2]]
    cache = {}
    grids = [build(v, cache) for v in vs]
    viol = []
    outcomes = []
    nontrivial = []
    trans = 0
    axes = {"diff": {}}

    def rec(oracle, sig, msg, focus):
        viol.append({"oracle": oracle, "sig": sig, "msg": msg, "focus": dict(focus, base=case["base"], other=case.get("other"))})

    for i, (va, ga) in enumerate(zip(vs, grids)):
        for j, (vb, gb) in enumerate(zip(vs, grids)):
            if va[0].get("extra") and vb[0].get("extra") and not (va[0].get("mat") and vb[0].get("mat")):
                continue  # extras are paired with every core variant (both directions) and mat x mat
            exp, comps = expected_equal(va, vb)
            trans += 2
            try:
                eq = ga == gb
                ne = ga != gb
            except Exception as e:
                rec("eq-raises", "eq:raises:%s" % type(e).__name__, "%r == %r raised %r" % (va[0], vb[0], e), {"i": va[0], "j": vb[0]})
                continue
            key = "+".join(comps) or "none"
            axes["diff"][key] = axes["diff"].get(key, 0) + 1
            hk = "%s|%s" % (va[0].get("mat", "-"), vb[0].get("mat", "-"))
            axes.setdefault("materialised(a|b)", {})[hk] = axes.get("materialised(a|b)", {}).get(hk, 0) + 1
            if va[0].get("by") or vb[0].get("by"):
                tk = va[0].get("by") or vb[0].get("by")
                axes.setdefault("tiny_perturbation", {})[tk] = axes.get("tiny_perturbation", {}).get(tk, 0) + 1
            outcomes.append(digest((i, j, bool(eq), bool(ne))))
            if len(comps) <= 1 and i != j:
                nontrivial.append("%s:%d:%d" % (case["base"] + "|" + str(case.get("other")), i, j))
            if type(eq) is not bool and not isinstance(eq, (bool, np.bool_)):
                rec("eq-type", "eq:not-bool", "== returned %r" % (type(eq),), {"i": va[0], "j": vb[0]})
            if bool(eq) != exp:
                rec(
                    "eq-definition",
                    "eq:expected=%s:diff=%s%s" % (exp, key, (":tiny-" + (va[0].get("by") or vb[0].get("by"))) if (va[0].get("by") or vb[0].get("by")) else ""),
                    "grids %r and %r differ in {%s}; == returned %s, definition says %s" % (va[0], vb[0], key, eq, exp),
                    {"i": va[0], "j": vb[0]},
                )
            if bool(ne) != (not bool(eq)):
                rec("ne-negation", "ne:not-negation:diff=%s:mat=%s" % (key, hk), "%r != %r returned %s while == returned %s" % (va[0], vb[0], ne, eq), {"i": va[0], "j": vb[0]})
    # symmetry
    for i in range(len(vs)):
        for j in range(i + 1, len(vs)):
            try:
                if bool(grids[i] == grids[j]) != bool(grids[j] == grids[i]):
                    rec("eq-symmetry", "eq:asymmetric", "%r vs %r" % (vs[i][0], vs[j][0]), {"i": vs[i][0], "j": vs[j][0]})
            except Exception:
                pass
    # non-Grid operands
    g0 = grids[0]
    for name, other in (("None", None), ("int", 0), ("str", "grid"), ("dataset", xr.Dataset()), ("ndarray", np.zeros(3)), ("tuple", (g0,))):
        trans += 2
        try:
            eq = g0 == other
            ne = g0 != other
            if eq is not False:
                rec("eq-nongrid", "eq:nongrid:%s" % name, "Grid == %s returned %r" % (name, eq), {"nongrid": name})
            if ne is not True:
                rec("ne-nongrid", "ne:nongrid:%s" % name, "Grid != %s returned %r" % (name, ne), {"nongrid": name})
        except Exception as e:
            rec("eq-nongrid", "eq:nongrid-raises:%s" % name, "Grid == %s raised %r" % (name, e), {"nongrid": name})
    return {
        "violations": viol,
        "evaluations": len(vs) ** 2,
        "transitions": trans,
        "states": ["%s|%s:%d" % (case["base"], case.get("other"), i) for i in range(len(vs))],
        "nontrivial": nontrivial,
        "outcomes": outcomes,
        "axes": axes,
        "sample": {"base": case["base"], "pair": [vs[1][0], vs[min(5, len(vs) - 1)][0]]},
    }


def run(ctx):
    ctx.map(run_case, list(cases(ctx.tier)))
    need = {"lon", "lat", "conn", "spec", "none"}
    got = set(ctx.axes.get("diff", {}))
    if not need <= got:
        from vf.core.runner import Vacuous

        raise Vacuous("difference classes not all exercised: %s" % (need - got))
