"""C07 -- Encoding a grid and reading it back preserves the grid.

Explorer H, structured histories:  mat* . enc(other)* . roundtrip
  mat(X)      materialise one of 14 lazily derived quantities on the grid under test
  enc(o, f)   encode one of two *other* live grids (a larger one with edges built, a smaller one without), or the
              grid under test itself, as f
  roundtrip   encode the grid under test as fmt, check the dataset's self-consistency, re-open it directly and
              through a NetCDF file, compare faces by position.
"""

import itertools
import os
import shutil
import tempfile

import numpy as np

from vf.alpha import build, meshes
from vf.core import pool
from vf.core.state import digest
from vf.oracle import faces as F

ID = "C07"
RULE = (
    "histories mat-set . enc(other)-sequence . roundtrip(fmt, via): mat-set = every subset of size <= k of 14 derived quantities and the full set; "
    "enc-sequence = every sequence of length <= j over {big grid with edges, small grid, the grid under test itself} x {ugrid, exodus, scrip}; fmt in {ugrid, exodus, scrip}; "
    "via in {dataset, NetCDF file}; on grids {mixed 3..6-gon patch, cube, cube with split face (3/4 mix), one face of every size 3..8, antimeridian strip, "
    "polar cap with nodes 0.2 and 1 degree from the pole, xyz-bearing source (unit sphere), xyz-bearing source in kilometres, grid read from an MPAS source (metres, supplied edges/centres/areas)}. non-trivial = mixed-size grid or non-empty prefix; distinct = (grid, mat-set, enc-sequence, fmt, via)"
)
ASSUMPTIONS = [
    "faces are compared by corner position (1e-9 chord), cyclic order up to rotation; same face order for UGRID and SCRIP, multiset for Exodus",
    "self-consistency (UGRID): every variable/dimension named by the grid_topology attributes exists in the encoded dataset",
    "Exodus date/time variables are not compared; NetCDF files are written to a private temporary directory",
]
BOUNDS = {
    "quick": "k<=1 (+full set), j<=1, 9 grids, both vias",
    "thorough": "k<=2 (+full set), j<=2, 9 grids, both vias",
}
MATS = [
    "edge_node_connectivity", "face_edge_connectivity", "edge_face_connectivity", "node_face_connectivity", "face_face_connectivity",
    "node_x", "face_lon", "edge_lon", "face_areas", "edge_node_distances", "edge_face_distances", "bounds", "hole_edge_indices",
    "antimeridian_face_indices",
]
FMTS = ["ugrid", "exodus", "scrip"]
GRIDS = ["mixedpatch", "cube", "cubesplit", "sizes38", "amstrip", "xyz:prism", "xyzkm:cubesplit", "mpas:mixedpatch", "polarcap2"]
OTHERS = ["big", "small", "self"]


def _grid(name):
    import uxarray as ux

    if name.startswith("mpas:"):
        # read from an MPAS source: Cartesian coordinates in metres, supplied edges, centres, areas
        from vf.alpha import dialects as D

        m = meshes.get(name[5:])
        return ux.open_grid(D.mpas(m, optional="all")[0]), m
    if name.startswith("xyz:") or name.startswith("xyzkm:"):
        m = meshes.get(name.split(":", 1)[1])
        lon, lat = m.lonlat()
        P = np.array(m.points) * (6371.229 if name.startswith("xyzkm:") else 1.0)  # Cartesian coordinates off the unit sphere
        return ux.Grid.from_topology(lon.copy(), lat.copy(), m.table(), fill_value=build.FILL, node_x=P[:, 0].copy(), node_y=P[:, 1].copy(), node_z=P[:, 2].copy()), m
    m = meshes.get(name)
    return build.grid(m), m


def _other(which):
    if which == "big":
        g = build.grid(meshes.get("cs2"))
        g.edge_node_connectivity
        g.face_lon
        g.edge_lon
        g.face_edge_connectivity
        return g
    return build.grid(meshes.get("single3"))


def _matsets(k):
    out = [()]
    for r in range(1, k + 1):
        out += list(itertools.combinations(range(len(MATS)), r))
    out.append(tuple(range(len(MATS))))
    return out


def _encseqs(j):
    alpha = [(o, f) for o in OTHERS for f in FMTS]
    out = [()]
    for r in range(1, j + 1):
        out += list(itertools.product(alpha, repeat=r))
    return out


def cases(tier):
    k, j = (1, 1) if tier == "quick" else (2, 2)
    out = []
    ms = _matsets(k)
    nb = 4 if tier == "quick" else 27
    step = (len(ms) + nb - 1) // nb
    for gname in GRIDS:
        for i0 in range(0, len(ms), step):
            out.append({"grid": gname, "k": k, "j": j, "mats": [i0, min(len(ms), i0 + step)]})
    return out


def selftest_case(tier):
    return {"grid": "cube", "k": 1, "j": 1, "mats": [0, 3]}


def warmup(tier):
    run_case({"grid": "cube", "k": 1, "j": 0, "mats": [15, 16]})
    run_case({"grid": "amstrip", "k": 1, "j": 1, "mats": [0, 1]})


def _new():
    return {"violations": [], "evaluations": 0, "transitions": 0, "nontrivial": [], "outcomes": [], "axes": {}, "states": []}


def _topology_names(ds):
    """names the UGRID topology variable points at"""
    out = []
    for tv in ds.filter_by_attrs(cf_role="mesh_topology").variables.values():
        for k, v in tv.attrs.items():
            if k in ("cf_role", "topology_dimension", "long_name"):
                continue
            if isinstance(v, str):
                out += [(k, n) for n in v.split()]
    return out


def run_history(gname, mats, encs, fmt, tmpdir):
    """returns list of (oracle, sig, msg)"""
    import uxarray as ux

    pool.fresh()
    snap = pool.snapshot()
    g, m = _grid(gname)
    want = F.faces_of_mesh(m)
    others = {}
    probs = []
    for i in mats:
        try:
            getattr(g, MATS[i])
        except Exception as e:
            return [("mat", "c07:mat:%s:raises:%s" % (MATS[i], type(e).__name__), repr(e))]
    for o, f in encs:
        if o not in others:
            others[o] = g if o == "self" else _other(o)
        try:
            others[o].to_xarray(f)
        except Exception:
            pass  # judged when that grid is the one under test
    try:
        ds = g.to_xarray(fmt)
    except Exception as e:
        return [("encode", "c07:%s:encode-raises:%s" % (fmt, type(e).__name__), "to_xarray(%r) raised %r" % (fmt, e))]
    if fmt == "ugrid":
        names = _topology_names(ds)
        if not names:
            probs.append(("consistency", "c07:ugrid:no-topology", "encoded dataset has no mesh_topology variable"))
        missing = [(k, n) for k, n in names if n not in ds.variables and n not in ds.dims]
        if missing:
            probs.append(("consistency", "c07:ugrid:topology-names-missing", "grid_topology names things the dataset does not contain: %s" % missing[:6]))
    ordered = fmt != "exodus"
    # via dataset
    try:
        g2 = ux.open_grid(ds)
        r = F.compare(F.faces_of_grid(g2), want, 1e-9, ordered)
        if r:
            probs.append(("roundtrip", "c07:%s:dataset:faces-differ" % fmt, r))
        sf = F.standard_form(g2)
        if sf:
            probs.append(("roundtrip", "c07:%s:dataset:non-standard" % fmt, "; ".join(sf[:3])))
    except Exception as e:
        probs.append(("roundtrip", "c07:%s:dataset:reopen-raises:%s" % (fmt, type(e).__name__), "open_grid(encoded dataset) raised %r" % (e,)))
    # via file
    path = os.path.join(tmpdir, "g.nc")
    try:
        if os.path.exists(path):
            os.unlink(path)
        ds.to_netcdf(path)
    except Exception as e:
        probs.append(("netcdf", "c07:%s:to_netcdf-raises:%s" % (fmt, type(e).__name__), "to_netcdf raised %r" % (e,)))
        path = None
    if path:
        try:
            g3 = ux.open_grid(path)
            r = F.compare(F.faces_of_grid(g3), want, 1e-9, ordered)
            if r:
                probs.append(("roundtrip", "c07:%s:file:faces-differ" % fmt, r))
            try:
                g3._ds.close()
            except Exception:
                pass
        except Exception as e:
            probs.append(("roundtrip", "c07:%s:file:reopen-raises:%s" % (fmt, type(e).__name__), "open_grid(file) raised %r" % (e,)))
    md = snap.diff()
    if md:
        probs.append(("module-state", "c07:module-state-changed", "module-level objects changed: %s" % md))
    return probs


def run_case(case):
    res = _new()
    V = res["violations"]
    gname = case["grid"]
    ms = _matsets(case["k"])
    es = _encseqs(case["j"])
    i0, i1 = case["mats"]
    mixed = len({len(f) for f in _meshof(gname).faces}) > 1
    tmpdir = tempfile.mkdtemp(prefix="vf-c07-")
    try:
        for mats in ms[i0:i1]:
            for encs in es:
                for fmt in FMTS:
                    foc = {"mats": list(mats), "encs": [list(e) for e in encs], "fmt": fmt}
                    if "only" in case and foc != case["only"]:
                        continue
                    probs = run_history(gname, mats, encs, fmt, tmpdir)
                    res["evaluations"] += 1
                    res["transitions"] += len(mats) + len(encs) + 3
                    key = digest((gname, foc))
                    res["states"].append(key)
                    if mixed or mats or encs:
                        res["nontrivial"].append(key)
                    res["outcomes"].append(digest(sorted(p[1] for p in probs)) if probs else "ok:" + fmt)
                    for oracle, sig, msg in probs:
                        hist = "mat{%s} ; %s ; roundtrip(%s)" % (",".join(MATS[i] for i in mats), " ; ".join("enc(%s,%s)" % tuple(e) for e in encs) or "-", fmt)
                        V.append({"oracle": oracle, "sig": sig + (":mixed" if mixed else ":uniform"), "msg": "grid %s, history %s: %s" % (gname, hist, msg), "focus": dict(case, only=foc)})
    finally:
        shutil.rmtree(tmpdir, ignore_errors=True)
    res["axes"] = {"grid": {gname: res["evaluations"]}, "n_mats": {str(len(ms[i])): 1 for i in range(i0, i1)}}
    res["sample"] = {"grid": gname, "mats": [MATS[i] for i in ms[i0]], "encs": "all %d sequences" % len(es)}
    return res


def _meshof(gname):
    return meshes.get(gname.split(":", 1)[1] if ":" in gname else gname)


def run(ctx):
    ctx.map(run_case, cases(ctx.tier))
