"""C18 -- The dual mesh swaps nodes and faces with correct ring order.

Explorers I + G: closed meshes (valence 3..8) and every face subset of the small ones (partial grids) x index
deviations x placements (node at a pole, ring across the antimeridian, generic tilt) x data on faces / nodes,
JIT on and off, against an incidence + orientation model.
"""

import itertools

import numpy as np

from vf.alpha import build, meshes
from vf.core import pool
from vf.core.state import digest
from vf.oracle import conn, sph

ID = "C18"
RULE = (
    "closed meshes {tetra, cube, octa, prism, cubesplit, pyr4..8, cs2, icosa}, kilometre-scale quad patches (0.002-degree cells: mid-latitude, across the antimeridian, next to the pole) and every non-empty face subset of the meshes with <= 8 faces x index deviations <= k "
    "(node relabelling, face order, start corner) x placements {as is, a node rotated onto the north pole, onto the south pole, onto lon=180 lat=0, generic tilt} x data "
    "{identity, generic; face- and node-centred; leading dims (), (2); element dimension last, first and in the middle}; each mesh also dualised after its mirror image / a rotated copy / its face-order-reversed copy in the same execution (and vice versa); JIT on, and a JIT-off pass in a separate interpreter. non-trivial = mesh with a node of "
    "valence >= 4 or a partial grid with both interior and boundary nodes; distinct = (mesh/subset, deviation, placement)"
)
ASSUMPTIONS = [
    "model: dual node i = primal face i's centre as the grid reports it; one dual face per primal node with >= 3 incident faces, in node order; corners = exactly "
    "the incident faces; for nodes whose incident faces form a closed fan consecutive corners share a primal edge cyclically and turn counter-clockwise seen from "
    "outside (sign of the triple product with the node position); for open fans only the corner set, counter-clockwise angular order and end padding are required",
    "meshes have convex faces and no duplicate nodes; orientation decisions have a margin (|triple product| > 1e-9)",
]
BOUNDS = {
    "quick": "deviations <= 1 on closed meshes (relabel cap 10), subsets of meshes with <= 6 faces, 5 placements on 4 meshes; JIT-off on 4 meshes + subsets of 2",
    "thorough": "deviations <= 2 on meshes with <= 9 faces, subsets of meshes with <= 8 faces, 5 placements on all closed meshes; JIT-off on all closed meshes + subsets of 4",
}
FINE = ["finequads", "finequads-am", "finequads-pole"]
CLOSED = ["tetra", "cube", "octa", "prism", "cubesplit", "pyr4", "pyr5", "pyr6", "pyr7", "pyr8", "cs2", "icosa"]


def _placements(m):
    P = np.array(m.points)
    out = [("asis", np.eye(3))]
    R = meshes.rot_to_pole(P[0])
    out.append(("node0->npole", R))
    out.append(("node0->spole", meshes.rot_axis((1, 0, 0), 180.0) @ R))
    out.append(("node1->lon180", meshes.rot_axis((0, 1, 0), 90.0) @ meshes.rot_to_pole(P[min(1, len(P) - 1)]) if True else None))
    out.append(("tilt", meshes.GENERIC_TILT))
    # lon180: rotate node 1 to the pole, then pole -> (-1,0,0) i.e. lon=180, lat=0
    out[3] = ("node1->lon180", meshes.rot_axis((0, 1, 0), -90.0) @ meshes.rot_to_pole(P[min(1, len(P) - 1)]))
    return out


def check_dual(g, m, V, focus, with_data=True):
    """compare g.get_dual() with the model for mesh m (g built from m)."""
    import uxarray as ux

    def bad(sig, msg):
        V.append({"oracle": "dual", "sig": sig, "msg": msg, "focus": focus})

    P = np.array(m.points)
    nf_model = {}
    for fi, f in enumerate(m.faces):
        for n in f:
            nf_model.setdefault(n, []).append(fi)
    E = conn.edge_model(m.faces)
    adj = {}
    for k, fl in E.items():
        if len(fl) == 2:
            a, b = fl[0][0], fl[1][0]
            adj.setdefault(a, set()).add(b)
            adj.setdefault(b, set()).add(a)
    dual_nodes = [n for n in range(m.n_node) if len(nf_model.get(n, ())) >= 3]
    try:
        d = g.get_dual()
    except Exception as e:
        if dual_nodes:
            bad("c18:raises:%s" % type(e).__name__, "get_dual() raised %r" % (e,))
        return None
    if not dual_nodes:
        # nothing to build: any answer without faces is acceptable
        return d
    try:
        fn = np.asarray(d.face_node_connectivity.values)
        dlon, dlat = np.asarray(d.node_lon.values, float), np.asarray(d.node_lat.values, float)
    except Exception as e:
        bad("c18:dual-unreadable:%s" % type(e).__name__, repr(e))
        return d
    gf = build.grid(m)
    C = sph.ll2xyz(gf.face_lon.values, gf.face_lat.values)
    if len(dlon) != m.n_face:
        bad("c18:n-dual-nodes", "dual has %d nodes, primal has %d faces" % (len(dlon), m.n_face))
        return d
    if not np.all(sph.angle(sph.ll2xyz(dlon, dlat), C) <= 1e-9):
        bad("c18:dual-node-position", "dual nodes are not at the primal face centres")
    if fn.ndim != 2 or fn.shape[0] != len(dual_nodes):
        bad("c18:n-dual-faces", "dual has %s faces, %d primal nodes have >= 3 incident faces" % (fn.shape, len(dual_nodes)))
        return d
    if fn.dtype != np.dtype(np.intp):
        bad("c18:dtype", "dual face_node_connectivity dtype %s" % fn.dtype)
    for row, n in zip(fn, dual_nodes):
        isf = row == build.FILL
        k = int((~isf).sum())
        if isf[:k].any():
            bad("c18:padding-inside", "dual face of node %d has fill before a corner: %s" % (n, row.tolist()))
            continue
        ring = [int(x) for x in row[:k]]
        if sorted(ring) != sorted(nf_model[n]):
            bad("c18:corner-set", "dual face of node %d has corners %s, incident primal faces are %s" % (n, ring, sorted(nf_model[n])))
            continue
        c = P[n]
        inc = set(nf_model[n])
        closed_fan = all(len(adj.get(f, set()) & inc & _share_node_edge(m, f, n, E)) == 2 for f in inc)
        # orientation and adjacency of consecutive corners
        pairs = list(zip(ring, ring[1:] + ring[:1])) if closed_fan else list(zip(ring, ring[1:]))
        for a, b in pairs:
            tp = float(np.dot(np.cross(C[a] - c, C[b] - c), c))
            if closed_fan and b not in _neighbours_through_node(m, a, n, E):
                bad("c18:ring-adjacency", "dual face of node %d: consecutive corners %d,%d are primal faces that do not share an edge at that node (ring %s)" % (n, a, b, ring))
                break
            # relative to the size of the fan (an absolute threshold would reject every kilometre-scale mesh)
            if closed_fan and tp < 1e-6 * float(np.linalg.norm(C[a] - c) * np.linalg.norm(C[b] - c)):
                bad("c18:ring-orientation", "dual face of node %d is not counter-clockwise seen from outside (ring %s, triple product %.3g)" % (n, ring, tp))
                break
        if not closed_fan and k >= 3:
            # open fan: angular order counter-clockwise starting from the first corner
            v0 = C[ring[0]] - c
            ang = []
            for f in ring:
                v = C[f] - c
                a_ = np.arctan2(float(np.dot(np.cross(v0, v), c)), float(np.dot(v0, v)))
                ang.append(a_ % (2 * np.pi))
            if any(ang[i + 1] <= ang[i] + 1e-12 for i in range(len(ang) - 1)):
                bad("c18:open-fan-angular-order", "dual face of boundary node %d: corners %s are not in counter-clockwise angular order (angles %s)" % (n, ring, [round(x, 4) for x in ang]))
    if with_data and m.closed and len(dual_nodes) == m.n_node:
        for lead in ((), (2,)):
            for elem, nn in (("n_face", m.n_face), ("n_node", m.n_node)):
                for dname, dbase in build.data_alphabet(nn, ("identity", "generic")):
                    data = build.lead_expand(dbase, lead)
                    da = build.uxda(g, data, elem, lead, name="q")
                    try:
                        out = da.get_dual()
                    except Exception as e:
                        bad("c18:data:raises:%s" % type(e).__name__, "UxDataArray.get_dual() on %s data raised %r" % (elem, e))
                        continue
                    want_dim = "n_node" if elem == "n_face" else "n_face"
                    want_dims = tuple("d%d" % i for i in range(len(lead))) + (want_dim,)
                    if not isinstance(out, ux.UxDataArray):
                        bad("c18:data:type", "result is %s" % type(out).__name__)
                        continue
                    if tuple(out.dims) != want_dims:
                        bad("c18:data:dims", "%s-centred data: dual dims %s, expected %s" % (elem, out.dims, want_dims))
                    if not np.array_equal(np.asarray(out.values), data):
                        bad("c18:data:values", "%s-centred %s data changed or permuted on the dual" % (elem, dname))
                    if out.uxgrid is None or out.uxgrid.n_node != m.n_face:
                        bad("c18:data:grid", "dual data is not attached to the dual grid")
        # the element dimension need not be the last one
        for elem, nn in (("n_face", m.n_face), ("n_node", m.n_node)):
            other = "n_node" if elem == "n_face" else "n_face"
            base = build.generic_field(nn)
            for dims, arr in (((elem, "lev"), np.stack([base, 2 * base + 1], axis=1)), (("t", elem, "lev"), np.stack([np.stack([base, -base], axis=1), np.stack([base + 5, 3 * base], axis=1)], axis=0))):
                try:
                    out = ux.UxDataArray(arr.copy(), dims=dims, uxgrid=g, name="q").get_dual()
                except Exception as e:
                    bad("c18:data:raises:%s" % type(e).__name__, "UxDataArray.get_dual() on data with dims %s raised %r" % (dims, e))
                    continue
                want = tuple(other if d_ == elem else d_ for d_ in dims)
                if tuple(out.dims) != want:
                    bad("c18:data:dims-not-last", "data with dims %s: dual dims %s, expected %s" % (dims, tuple(out.dims), want))
                elif not np.array_equal(np.asarray(out.values), arr):
                    bad("c18:data:values-not-last", "data with dims %s changed or was permuted on the dual" % (dims,))
    return d


def _share_node_edge(m, f, n, E):
    """faces sharing with f an edge that contains node n"""
    out = set()
    fc = m.faces[f]
    L = len(fc)
    for j in range(L):
        e = frozenset((fc[j], fc[(j + 1) % L]))
        if n in e:
            for (g_, _) in E[e]:
                if g_ != f:
                    out.add(g_)
    return out


def _neighbours_through_node(m, f, n, E):
    return _share_node_edge(m, f, n, E)


def cases(tier):
    out = []
    quick = tier == "quick"
    for name in CLOSED:
        m = meshes.get(name)
        k = 1 if (quick or m.n_face > 9) else 2
        out.append({"kind": "mesh", "mesh": name, "k": k, "cap": 10 if quick else None})
        if m.n_face <= (6 if quick else 8):
            out.append({"kind": "subsets", "mesh": name})
    for name in (["cube", "pyr5", "octa", "cubesplit"] if quick else CLOSED):
        out.append({"kind": "placements", "mesh": name})
    for name in (["cube", "pyr5", "cubesplit", "icosa"] if quick else CLOSED):
        out.append({"kind": "after", "mesh": name})
    # kilometre-scale partial meshes (cells of 0.002 degrees; also across the antimeridian and next to the pole)
    for name in FINE:
        out.append({"kind": "mesh", "mesh": name, "k": 0 if quick else 1, "cap": 10})
    return out


def jitoff_cases(tier):
    quick = tier == "quick"
    out = [{"kind": "mesh", "mesh": n, "k": 0, "cap": None, "jit": "off"} for n in (["tetra", "cube", "pyr6", "icosa"] if quick else CLOSED)]
    out += [{"kind": "subsets", "mesh": n, "jit": "off"} for n in (["pyr4", "prism"] if quick else ["pyr4", "prism", "cube", "tetra"])]
    return out


def selftest_case(tier):
    return {"kind": "mesh", "mesh": "pyr5", "k": 1, "cap": 4}


def warmup(tier):
    run_case({"kind": "mesh", "mesh": "tetra", "k": 0, "cap": None})
    run_case({"kind": "subsets", "mesh": "tetra"})


def run_case(case):
    import os

    if case.get("jit") == "off" and os.environ.get("NUMBA_DISABLE_JIT") != "1":
        from vf.core import subrun

        r = subrun.run("vf.props.c18", [case], {"NUMBA_DISABLE_JIT": "1"}, nproc=1)[0]
        r.pop("_case", None)
        return r
    res = {"violations": [], "evaluations": 0, "transitions": 0, "nontrivial": [], "outcomes": [], "axes": {}, "states": []}
    V = res["violations"]
    base = meshes.get(case["mesh"])
    jit = case.get("jit", "on")
    pre = "[NUMBA_DISABLE_JIT=1] " if jit == "off" else ""

    def one(m, focus, label, nontrivial):
        pool.fresh()
        g = build.grid(m)
        n0 = len(V)
        d = check_dual(g, m, V, focus)
        for v in V[n0:]:
            if jit == "off":
                v["sig"] = v["sig"].replace("c18:", "c18:jit-off:", 1)
            v["msg"] = pre + "%s: %s" % (label, v["msg"])
        res["evaluations"] += 1
        res["transitions"] += 1
        key = digest((case["mesh"], label, jit))
        res["states"].append(key)
        if nontrivial:
            res["nontrivial"].append(key)
        try:
            res["outcomes"].append(digest(np.asarray(d.face_node_connectivity.values)) if d is not None else "none")
        except Exception:
            res["outcomes"].append("unreadable")

    val = {}
    for f in base.faces:
        for n in f:
            val[n] = val.get(n, 0) + 1
    hi = max(val.values()) >= 4
    if case["kind"] == "mesh":
        for dv, m in meshes.deviations(base, case["k"], relabel_cap=case.get("cap")):
            if "only" in case and dv != case["only"]:
                continue
            one(m, dict(case, only=dv), "mesh %s deviation %s" % (case["mesh"], dv), hi)
        res["axes"] = {"mesh": {case["mesh"]: res["evaluations"]}, "jit": {jit: res["evaluations"]}}
    elif case["kind"] == "subsets":
        F = base.n_face
        for mask in range(1, 2 ** F):
            ids = [i for i in range(F) if mask >> i & 1]
            if "only" in case and ids != case["only"]:
                continue
            m = base.subset(ids)
            m.closed = len(ids) == F and base.closed
            inc = {}
            for f in m.faces:
                for n in f:
                    inc[n] = inc.get(n, 0) + 1
            one(m, dict(case, only=ids), "faces %s of %s" % (ids, case["mesh"]), any(v >= 3 for v in inc.values()) and len(ids) < F)
        res["axes"] = {"subsets_of": {case["mesh"]: res["evaluations"]}, "jit": {jit: res["evaluations"]}}
    elif case["kind"] == "after":
        # the grid under test is dualised AFTER another grid in the same execution: its mirror image (identical node-face incidence,
        # opposite orientation), a rotated copy, the same mesh with reversed face order -- and vice versa
        def mirror(m):
            mm = meshes.Mesh(m.name + "/mirror", [(p[0], p[1], -p[2]) for p in m.points], [tuple(f[::-1]) for f in m.faces], m.closed, m.tags)
            return mm

        others = {
            "mirror": mirror(base),
            "rotated": base.transform(meshes.rot_axis((1.0, 2.0, 0.5), 77.0), base.name + "/rot"),
            "face-order-reversed": base.reorder_faces(list(range(base.n_face))[::-1], base.name + "/rev"),
        }
        for oname, om in others.items():
            om.closed = base.closed
            for first, second, tag in ((om, base, oname + " first"), (base, om, "base first, then " + oname)):
                foc = {"other": oname, "order": tag}
                if "only" in case and foc != case["only"]:
                    continue
                pool.fresh()
                try:
                    build.grid(first).get_dual()
                except Exception:
                    pass
                g = build.grid(second)
                n0 = len(V)
                d = check_dual(g, second, V, dict(case, only=foc))
                for v in V[n0:]:
                    v["sig"] = v["sig"].replace("c18:", "c18:after-other-grid:", 1)
                    v["msg"] = "mesh %s dualised after another grid (%s): %s" % (case["mesh"], tag, v["msg"])
                res["evaluations"] += 1
                res["transitions"] += 2
                key = digest((case["mesh"], "after", oname, tag))
                res["states"].append(key)
                res["nontrivial"].append(key)
        res["axes"] = {"after_other_grid": {case["mesh"]: res["evaluations"]}}
    else:
        for pname, R in _placements(base):
            if "only" in case and pname != case["only"]:
                continue
            m = base.transform(R, base.name)
            m.closed = base.closed
            one(m, dict(case, only=pname), "mesh %s placed %s" % (case["mesh"], pname), True)
        res["axes"] = {"placements": {case["mesh"]: res["evaluations"]}}
    res["sample"] = {"mesh": case["mesh"], "kind": case["kind"], "jit": jit}
    return res


def run(ctx):
    ctx.map(run_case, cases(ctx.tier))
    from vf.core import subrun

    results = subrun.run("vf.props.c18", jitoff_cases(ctx.tier), {"NUMBA_DISABLE_JIT": "1"}, nproc=min(8, ctx.nproc))
    n = 0
    for r in results:
        c = r.pop("_case")
        ctx.add(c, r)
        n += r["evaluations"]
    ctx.extra["jit_off_pass"] = {"cases": len(results), "evaluations": n}
