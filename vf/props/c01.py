"""C01 -- Readers decode every supported format to the faces the source describes.

Explorer I with deviation bounding: abstract meshes x source format x dialect vector (<= k deviations from the
format's default dialect); the source is written by the harness's own writers (vf.alpha.dialects), opened through
the public entry points, and the decoded faces are compared with the abstract mesh by corner position.
"""

import os
import shutil
import tempfile

import numpy as np

from vf.alpha import dialects as D, meshes
from vf.core import pool
from vf.core.state import digest
from vf.oracle import faces as F, sph

ID = "C01"
RULE = (
    "meshes {tetra, cube, octa, prism, cube with a split face, pyr5, pyr8, mixed 3..6-gon patch, one face of every size 3..8, antimeridian strip, pole cap, pole fan, "
    "isolated faces, single triangle, icosahedron} x formats {UGRID, MPAS primal, MPAS dual, SCRIP, Exodus, ESMF, GEOS-CS (N=1,2,3), ICON, GeoJSON, shapefile, "
    "face-vertex arrays, topology dict} x dialect vectors with <= k deviations from the format's default (UGRID: start_index x fill x dtype x names x lon x optional "
    "tables; MPAS: padding x optional tables x coords; SCRIP: lon x centre-longitude convention x corner-table memory order; Exodus: coord variable x blocks x radius x dtype; ESMF: start_index x centres x dtype x padding x centre-longitude convention x "
    "lon; vertices: container x latlon/xyz x layout; topology: fill {INT_FILL,-1,none,0,999} x start_index x optional kwargs x lon; MPAS and ICON also x index dtype int32/int64), in memory, (k=0,1) through a NetCDF file, (k<=1) as the SECOND open of the same in-memory source object, and (k<=1) with every table column-major in memory. "
    "non-trivial = mixed face sizes or a non-default dialect; distinct = (format, mesh, dialect vector, medium)"
)
ASSUMPTIONS = [
    "the harness's writers follow the formats' public conventions (UGRID 1.0 attributes; MPAS mesh spec: 1-based indices, nEdgesOnCell, radians; SCRIP repeated last "
    "corner; Exodus connectN blocks, 1-based; ESMFMESH numElementConn/elementConn, default start_index 1; GEOS-CS corner arrays; ICON transposed 1-based tables)",
    "faces are compared by corner position (1e-9 chord; float32 sources 1e-6) in the order the source lists them, cyclic order up to rotation; traversal direction is "
    "free only where the format does not define one (GEOS-CS corner arrays, GeoJSON/shapefile rings)",
    "standard form: platform integer dtype, fill only as a row suffix and equal to the standard fill, indices in range, lon in [-180,180], lat in [-90,90]",
    "explicitly supplied tables/centres/areas are compared as element sets in source order (node numbering is preserved by those readers)",
]
BOUNDS = {"quick": "k <= 2 deviations, 10 meshes, NetCDF round trip for k = 0", "thorough": "k <= 3 deviations, 15 meshes, NetCDF round trip for k <= 1"}
MESH_Q = ["tetra", "cube", "cubesplit", "pyr5", "mixedpatch", "sizes38", "amstrip", "polefan", "isolated", "single3"]
MESH_T = MESH_Q + ["octa", "prism", "pyr8", "polecap", "icosa"]
FORMATS = ["ugrid", "mpas", "scrip", "exodus", "esmf", "icon", "geojson", "shapefile", "vertices", "topology", "geos"]
VERT_AXES = [("container", ["list", "tuple", "ndarray"]), ("latlon", [True, False]), ("layout", ["3d", "2d"])]
TOPO_AXES = [("fill", ["INT_FILL", -1, None, 0, 999]), ("start_index", [0, 1]), ("extra", ["none", "edges", "centres", "edges+centres", "centres-lon360"]), ("lon", ["pm180", "0-360"])]


def _vectors(fmt, k):
    ax = {"ugrid": D.UGRID_AXES, "mpas": D.MPAS_AXES, "scrip": D.SCRIP_AXES, "exodus": D.EXODUS_AXES, "esmf": D.ESMF_AXES, "icon": D.ICON_AXES, "vertices": VERT_AXES, "topology": TOPO_AXES}.get(fmt)
    if ax is None:
        return [()], None
    return D.vectors(ax, k), ax


def cases(tier):
    k = 2 if tier == "quick" else 3
    out = []
    for fmt in FORMATS:
        if fmt == "geos":
            out.append({"fmt": "geos", "mesh": "-", "k": k, "tier": tier})
            continue
        for mname in MESH_Q if tier == "quick" else MESH_T:
            out.append({"fmt": fmt, "mesh": mname, "k": k, "tier": tier})
    return out


def selftest_case(tier):
    return {"fmt": "ugrid", "mesh": "mixedpatch", "k": 1, "tier": "quick"}


def warmup(tier):
    for fmt in ("ugrid", "mpas", "scrip", "exodus", "esmf", "topology"):
        run_case({"fmt": fmt, "mesh": "single3", "k": 0, "tier": "quick"})


def _open(fmt, src, vec, ax, tmpdir, via_file):
    import uxarray as ux
    import xarray as xr

    kw = dict(zip([a[0] for a in ax], vec)) if ax else {}
    if fmt in ("geojson", "shapefile"):
        return ux.Grid.from_file(src)
    if fmt == "vertices":
        return ux.open_grid(src, latlon=kw["latlon"])
    if fmt == "topology":
        return ux.open_grid(src)
    use_dual = bool(kw.get("dual", False))
    if via_file:
        path = os.path.join(tmpdir, "src.nc")
        if os.path.exists(path):
            os.unlink(path)
        src.to_netcdf(path)
        return ux.open_grid(path, use_dual=use_dual)
    return ux.open_grid(src, use_dual=use_dual)


def _write(fmt, m, kw, tmpdir):
    if fmt == "ugrid":
        return D.ugrid(m, **kw)
    if fmt == "mpas":
        return D.mpas(m, **kw)
    if fmt == "scrip":
        return D.scrip(m, **kw)
    if fmt == "exodus":
        return D.exodus(m, **kw)
    if fmt == "esmf":
        return D.esmf(m, **kw)
    if fmt == "icon":
        return D.icon(m, **kw)
    if fmt == "vertices":
        return D.face_vertices(m, **kw)
    if fmt == "topology":
        return D.topology(m, **kw)
    return None


def _judge(g, exp, fmt, bad, tol=1e-9):
    try:
        got = F.faces_of_grid(g)
    except Exception as e:
        bad("c01:%s:unreadable:%s" % (fmt, type(e).__name__), "decoded grid cannot be read: %r" % (e,))
        return
    r = F.compare(got, exp["faces"], tol, ordered=exp.get("ordered", True), either=exp.get("orient") == "either")
    if r:
        bad("c01:%s:faces-differ" % fmt, r)
        return
    sf = F.standard_form(g)
    if sf:
        bad("c01:%s:non-standard-form" % fmt, "; ".join(sf[:3]))
    ds = g._ds
    fill = F.FILL
    if "edge_node" in exp:
        if "edge_node_connectivity" not in ds:
            bad("c01:%s:supplied-edge_node-lost" % fmt, "the source's edge_node table is not in the grid")
        else:
            en = np.asarray(ds["edge_node_connectivity"].values)
            if en.dtype != np.dtype(np.intp) or [frozenset(int(x) for x in r) for r in en.tolist()] != exp["edge_node"]:
                bad("c01:%s:supplied-edge_node-differs" % fmt, "edge_node_connectivity %s (dtype %s) is not the supplied edge list %s" % (en.tolist()[:4], en.dtype, [sorted(x) for x in exp["edge_node"][:4]]))
    if "face_edge" in exp and "face_edge_connectivity" in ds:
        fe = np.asarray(ds["face_edge_connectivity"].values)
        want = np.full(fe.shape, fill, dtype=np.intp) if fe.ndim == 2 else None
        ok = want is not None and fe.shape[0] == len(exp["face_edge"]) and fe.dtype == np.dtype(np.intp)
        if ok:
            for i, r in enumerate(exp["face_edge"]):
                if len(r) > fe.shape[1]:
                    ok = False
                    break
                want[i, : len(r)] = r
            ok = ok and np.array_equal(fe, want)
        if not ok:
            bad("c01:%s:supplied-face_edge-differs" % fmt, "face_edge_connectivity %s (dtype %s) is not the supplied table %s" % (fe.tolist()[:3], fe.dtype, exp["face_edge"][:3]))
    if "edge_face" in exp and "edge_face_connectivity" in ds:
        ef = np.asarray(ds["edge_face_connectivity"].values)
        gotl = [sorted(int(x) for x in r if x != fill) for r in ef.tolist()]
        if ef.dtype != np.dtype(np.intp) or gotl != exp["edge_face"] or np.any((ef < 0) & (ef != fill)):
            bad("c01:%s:supplied-edge_face-differs" % fmt, "edge_face_connectivity %s (dtype %s) is not the supplied table %s / uses a non-standard fill" % (ef.tolist()[:4], ef.dtype, exp["edge_face"][:4]))
    for key, lonn, latn in (("face_centres", "face_lon", "face_lat"), ("edge_centres", "edge_lon", "edge_lat")):
        if key in exp:
            xn = lonn.replace("_lon", "_x")
            if lonn not in ds and xn not in ds:
                bad("c01:%s:supplied-%s-lost" % (fmt, key), "the source's %s are not in the grid" % key)
                continue
            if lonn not in ds:
                # supplied as Cartesian vectors only
                X = np.stack([np.asarray(ds[xn.replace("_x", "_" + c)].values, float) for c in "xyz"], axis=-1)
                if X.shape != exp[key].shape or np.any(sph.angle(X, exp[key]) > 1e-9):
                    bad("c01:%s:supplied-%s-differ" % (fmt, key), "%s are not the supplied positions" % xn)
                continue
            lo, la = np.asarray(ds[lonn].values, float), np.asarray(ds[latn].values, float)
            if lo.shape != (len(exp[key]),) or np.any(sph.angle(sph.ll2xyz(lo, la), exp[key]) > 1e-9):
                bad("c01:%s:supplied-%s-differ" % (fmt, key), "%s/%s are not the supplied positions" % (lonn, latn))
            elif lo.size and (lo.min() < -180 or lo.max() > 180):
                bad("c01:%s:supplied-%s-lon-range" % (fmt, key), "%s outside [-180,180]: [%g, %g]" % (lonn, lo.min(), lo.max()))
    if "face_areas" in exp and "face_areas" in ds:
        if not np.allclose(np.asarray(ds["face_areas"].values, float), exp["face_areas"], rtol=1e-12, atol=0):
            bad("c01:%s:supplied-face_areas-differ" % fmt, "face_areas are not the supplied areaCell values")


def run_case(case):
    res = {"violations": [], "evaluations": 0, "transitions": 0, "nontrivial": [], "outcomes": [], "axes": {}, "states": []}
    V = res["violations"]
    fmt, tier, k = case["fmt"], case["tier"], case["k"]
    tmpdir = tempfile.mkdtemp(prefix="vf-c01-")
    try:
        if fmt == "geos":
            for N in (1, 2, 3):
                for centers in (True, False):
                    foc = {"N": N, "centers": centers}
                    if "only" in case and foc != case["only"]:
                        continue

                    def bad(sig, msg, foc=foc):
                        V.append({"oracle": "decode", "sig": sig, "msg": "GEOS-CS N=%d centres=%s: %s" % (foc["N"], foc["centers"], msg), "focus": dict(case, only=foc)})

                    pool.fresh()
                    ds, exp = D.geos_cs(N, centers)
                    res["evaluations"] += 1
                    res["transitions"] += 1
                    key = digest(("geos", foc))
                    res["states"].append(key)
                    res["nontrivial"].append(key)
                    try:
                        import uxarray as ux

                        g = ux.open_grid(ds)
                    except Exception as e:
                        bad("c01:geos:open-raises:%s" % type(e).__name__, repr(e))
                        continue
                    _judge(g, exp, "geos", bad)
                    res["outcomes"].append("geos%d" % N)
            res["axes"] = {"format": {"geos": res["evaluations"]}}
            res["sample"] = dict(case)
            return res
        m = meshes.get(case["mesh"])
        mixed = len({len(f) for f in m.faces}) > 1
        vecs, ax = _vectors(fmt, k)
        default = vecs[0]
        # the same mesh with its faces listed in reverse: same array shapes, different rows
        rev = m.reorder_faces(list(range(m.n_face))[::-1], m.name + "/rev") if m.n_face > 1 else None
        snap = pool.snapshot()
        for vec in vecs:
            ndev = sum(1 for a, b in zip(vec, default) if a != b)
            media = [(False, None)]
            if fmt in ("ugrid", "mpas", "scrip", "exodus", "esmf", "icon") and ndev <= (0 if tier == "quick" else 1):
                media.append((True, None))
            if rev is not None and ndev <= 1 and fmt not in ("geojson", "shapefile"):
                media.append((False, rev))
            if ndev <= 1 and fmt not in ("geojson", "shapefile"):
                media.append((False, "again"))
            if ndev <= 1 and fmt in ("ugrid", "mpas", "scrip", "exodus", "esmf", "icon"):
                media.append((False, "fortran"))
            for via_file, prior in media:
                again = prior == "again"
                fortran = prior == "fortran"
                if isinstance(prior, str):
                    prior = None
                foc = {"vec": [str(x) for x in vec], "file": via_file, "after_other_source": prior is not None, "second_open_of_same_source": again}
                if fortran:
                    foc["memory_order"] = "F"
                if "only" in case and foc != case["only"]:
                    continue
                kw = dict(zip([a[0] for a in ax], vec)) if ax else {}

                def bad(sig, msg, foc=foc, kw=kw):
                    V.append({"oracle": "decode", "sig": sig + (":mixed" if mixed else ":uniform") + (":after-other-source" if foc["after_other_source"] else "") + (":second-open" if foc["second_open_of_same_source"] else ""), "msg": "%s source of mesh %s, dialect %s%s%s: %s" % (fmt, case["mesh"], kw, " via NetCDF file" if foc["file"] else "", " (opened after the same mesh with reversed face order)" if foc["after_other_source"] else (" (second open of the same in-memory source object)" if foc["second_open_of_same_source"] else (" (tables column-major in memory)" if foc.get("memory_order") else "")), msg), "focus": dict(case, only=foc)})

                pool.fresh()
                if prior is not None:
                    # another source of the same format and array shapes was opened earlier in this process
                    try:
                        rp = _write(fmt, prior, kw, tmpdir)
                        if rp is not None:
                            _open(fmt, rp[0], vec, ax, tmpdir, False)
                    except Exception:
                        pass
                try:
                    if fmt == "ugrid":
                        r = D.ugrid(m, **kw)
                    elif fmt == "mpas":
                        r = D.mpas(m, **kw)
                    elif fmt == "scrip":
                        r = D.scrip(m, **kw)
                    elif fmt == "exodus":
                        r = D.exodus(m, **kw)
                    elif fmt == "esmf":
                        r = D.esmf(m, **kw)
                    elif fmt == "icon":
                        r = D.icon(m, **kw)
                    elif fmt == "geojson":
                        r = D.geojson(m, os.path.join(tmpdir, "m.geojson"))
                    elif fmt == "shapefile":
                        r = D.shapefile(m, os.path.join(tmpdir, "m.shp"))
                    elif fmt == "vertices":
                        r = D.face_vertices(m, **kw)
                    else:
                        r = D.topology(m, **kw)
                except Exception as e:
                    raise RuntimeError("harness writer failed for %s %s %s: %r" % (fmt, case["mesh"], kw, e))
                if r is None:
                    continue  # this dialect combination is not well-formed for this mesh
                src, exp = r
                if fortran:
                    # the same content with every table stored column-major in memory (arrays assembled column-wise, transposed views)
                    for vn in list(src.variables):
                        if src[vn].ndim >= 2:
                            src[vn] = (src[vn].dims, np.asfortranarray(src[vn].values), dict(src[vn].attrs))
                res["evaluations"] += 1
                res["transitions"] += 1
                key = digest((fmt, case["mesh"], foc))
                res["states"].append(key)
                if mixed or ndev:
                    res["nontrivial"].append(key)
                if again:
                    try:
                        _open(fmt, src, vec, ax, tmpdir, False)
                    except Exception:
                        pass
                try:
                    g = _open(fmt, src, vec, ax, tmpdir, via_file)
                except Exception as e:
                    bad("c01:%s:open-raises:%s" % (fmt, type(e).__name__), "opening raised %r" % (e,))
                    continue
                tol = 1e-9
                _judge(g, exp, fmt, bad, tol)
                md = snap.diff()
                if md:
                    bad("c01:%s:module-state-changed" % fmt, "opening the source left module-level state behind: %s" % md)
                try:
                    g._ds.close()
                except Exception:
                    pass
                res["outcomes"].append(digest((fmt, ndev)))
        res["axes"] = {"format": {fmt: res["evaluations"]}, "mesh": {case["mesh"]: res["evaluations"]}}
        res["sample"] = dict(case)
        return res
    finally:
        shutil.rmtree(tmpdir, ignore_errors=True)


def run(ctx):
    ctx.map(run_case, cases(ctx.tier))
