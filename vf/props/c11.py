"""C11 -- Neighbour queries agree with brute-force search under the tree's metric.

Explorers G + H: (a) every (grid, element kind, tree type, coordinate system, metric) x query lattice x every k in
1..n x radius menu, against brute force under the documented metric; (b) every sequence of <= d differently
parameterised tree requests on one grid followed by a query, which must answer for the parameters of the *last*
request.
"""

import itertools

import numpy as np

from vf.alpha import build, meshes
from vf.core import pool
from vf.core.state import digest
from vf.oracle import sph

ID = "C11"
RULE = (
    "(a) grids with elements on both sides of the antimeridian and at/near the poles x {nodes, edge centers, face centers} x trees {ball/spherical/haversine, "
    "ball/cartesian/euclidean, kd/cartesian/minkowski, kd/cartesian/chebyshev, kd/cartesian/manhattan, kd/spherical/minkowski} x a 10x10 lon/lat query lattice (poles, "
    "lon=+-180, 0) plus the element positions themselves (radius queries: distances+indices, sort_results=True, indices only, count_only), as one batch, as single points, in degrees and radians x every k in 1..n x radii {0, half the minimum "
    "inter-element distance, median, pi/2, 3.0 rad}; (b) every sequence of <= d requests over 28 parameterisations (2 trees x 3 kinds x {spherical, cartesian, cartesian+"
    "other metric} + reconstruct variants) followed by k in {1, 3, n} queries. Every kNN query is issued as (distances+indices), indices only, breadth-first and dual-tree;  non-trivial = query whose k nearest elements lie on both sides of the antimeridian, or "
    "request sequences that change system/metric; distinct = (grid, kind, tree, query form, k)"
)
ASSUMPTIONS = [
    "element positions are those a fresh grid reports (node/edge/face lon, lat and x, y, z; their mutual consistency is C04)",
    "documented conventions: BallTree takes (lon, lat), KDTree on spherical coordinates takes (lat, lon); spherical distances in degrees unless in_radians",
    "tie-robust comparison: returned distances equal the sorted brute-force distances and every returned index has its returned distance; tolerance 1e-10, "
    "1e-6 beyond 3 rad for haversine (asin conditioning near the antipode)",
    "radius queries: ball/spherical in degrees with in_radians=False, kd/spherical in radians with in_radians=True (the only unambiguous readings); radii within 1e-7 of an element distance are nudged",
]
BOUNDS = {
    "quick": "(a) 3 grids + the 108 edge centres of a 3x3 cubed sphere (multi-leaf trees; k = 1, 10, 19, .., n); (b) d=2 over all 28 requests and d=3 over the 12 plain requests of 4 trees, on 1 grid",
    "thorough": "(a) 6 grids; (b) d=3 on 1 grid, d=2 on 2 more",
}
KINDS = ["nodes", "edge centers", "face centers"]
TREES = [
    ("ball", "spherical", "haversine"),
    ("ball", "cartesian", "euclidean"),
    ("kd", "cartesian", "minkowski"),
    ("kd", "cartesian", "chebyshev"),
    ("kd", "cartesian", "manhattan"),
    ("kd", "spherical", "minkowski"),
]
QLON = [-180.0, -179.5, -90.0, -45.3, 0.0, 0.7, 30.1, 120.2, 179.5, 180.0]
QLAT = [-90.0, -89.5, -60.2, -10.1, 0.0, 12.3, 45.6, 80.4, 89.5, 90.0]


def _elements(g, kind):
    if kind == "nodes":
        lon, lat, x, y, z = g.node_lon.values, g.node_lat.values, g.node_x.values, g.node_y.values, g.node_z.values
    elif kind == "edge centers":
        lon, lat, x, y, z = g.edge_lon.values, g.edge_lat.values, g.edge_x.values, g.edge_y.values, g.edge_z.values
    else:
        lon, lat, x, y, z = g.face_lon.values, g.face_lat.values, g.face_x.values, g.face_y.values, g.face_z.values
    return np.asarray(lon, float), np.asarray(lat, float), np.stack([x, y, z], axis=-1).astype(float)


def _brute(tree, qlon, qlat, elon, elat, exyz):
    """(n_q, n_e) distance matrix under the tree's documented metric, in the tree's natural unit (rad / chord)."""
    which, system, metric = tree
    if system == "spherical" and metric == "haversine":
        return sph.angle(sph.ll2xyz(qlon, qlat)[:, None, :], sph.ll2xyz(elon, elat)[None, :, :])
    if system == "spherical":
        dlat = np.deg2rad(qlat)[:, None] - np.deg2rad(elat)[None, :]
        dlon = np.deg2rad(qlon)[:, None] - np.deg2rad(elon)[None, :]
        return np.sqrt(dlat ** 2 + dlon ** 2)
    q = sph.ll2xyz(qlon, qlat)
    d = q[:, None, :] - exyz[None, :, :]
    if metric in ("euclidean", "minkowski"):
        return np.sqrt((d ** 2).sum(-1))
    if metric == "chebyshev":
        return np.abs(d).max(-1)
    if metric == "manhattan":
        return np.abs(d).sum(-1)
    raise ValueError(metric)


def _get_tree(g, tree, kind, reconstruct=False):
    which, system, metric = tree
    fn = g.get_ball_tree if which == "ball" else g.get_kd_tree
    return fn(coordinates=kind, coordinate_system=system, distance_metric=metric, reconstruct=reconstruct)


def _coords(tree, qlon, qlat, radians):
    which, system, metric = tree
    if system == "cartesian":
        return sph.ll2xyz(qlon, qlat)
    a, b = (qlon, qlat) if which == "ball" else (qlat, qlon)
    c = np.stack([a, b], axis=-1)
    return np.deg2rad(c) if radians else c


def _tol(tree, d):
    if tree[2] == "haversine":
        return np.where(d > 3.0, 1e-6, 1e-10)
    return np.full_like(d, 1e-10)


def _check_knn(t, tree, kind, qlon, qlat, D, k, radians, single, bad, info):
    """D = brute-force matrix rows for these queries"""
    coords = _coords(tree, qlon, qlat, radians)
    coords = np.ascontiguousarray(coords, dtype=np.float64)
    before = coords.copy()
    for rep in range(2):  # the same caller-owned array is used for two consecutive queries
        r_ = _check_knn_once(t, tree, kind, qlon, qlat, D, k, radians, single, bad, info + ("" if rep == 0 else " (same query array reused)"), coords)
        if not np.array_equal(coords, before):
            bad("c11:query-modifies-callers-array", "%s query(k=%d) modified the caller's coordinate array (e.g. %s -> %s)" % (info, k, before.ravel()[:2].tolist(), coords.ravel()[:2].tolist()))
            return None
        if r_ is None:
            return None
    return r_


def _check_knn_once(t, tree, kind, qlon, qlat, D, k, radians, single, bad, info, coords):
    system = tree[1]
    try:
        if single:
            d, ind = t.query(coords[0], k=k, in_radians=radians) if system == "spherical" else t.query(coords[0], k=k)
        else:
            d, ind = t.query(coords, k=k, in_radians=radians) if system == "spherical" else t.query(coords, k=k)
    except Exception as e:
        bad("c11:query-raises:%s" % type(e).__name__, "%s query(k=%d) raised %r" % (info, k, e))
        return None
    d = np.asarray(d, dtype=float)
    ind = np.asarray(ind)
    if d.shape != ind.shape:
        bad("c11:shape", "%s k=%d: distance shape %s vs index shape %s" % (info, k, d.shape, ind.shape))
        return None
    nq = 1 if single else len(qlon)
    try:
        d2 = d.reshape(nq, k)
        i2 = ind.reshape(nq, k)
    except Exception:
        bad("c11:shape", "%s k=%d: result shape %s for %d queries" % (info, k, d.shape, nq))
        return None
    if system == "spherical" and not radians:
        d2 = np.deg2rad(d2)  # documented unit: degrees
    Dq = D[:nq]
    want = np.sort(Dq, axis=1)[:, :k]
    tol = _tol(tree, want)
    if not np.all(np.abs(d2 - want) <= tol):
        q = int(np.argwhere(~(np.abs(d2 - want) <= tol))[0][0])
        bad("c11:knn-distances:%s-%s-%s" % tree, "%s k=%d query (lon %.2f, lat %.2f): returned distances %s, brute force %s (%s)" % (info, k, qlon[q], qlat[q], d2[q].tolist(), want[q].tolist(), "radians" if radians else "degrees->rad"))
        return None
    if i2.min() < 0 or i2.max() >= D.shape[1]:
        bad("c11:knn-index-range", "%s k=%d: index out of range" % (info, k))
        return None
    own = np.take_along_axis(Dq, i2.astype(int), axis=1)
    if not np.all(np.abs(own - d2) <= tol):
        q = int(np.argwhere(~(np.abs(own - d2) <= tol))[0][0])
        bad("c11:knn-index-distance:%s-%s-%s" % tree, "%s k=%d query (lon %.2f, lat %.2f): returned indices %s are at distances %s but %s were returned" % (info, k, qlon[q], qlat[q], i2[q].tolist(), own[q].tolist(), d2[q].tolist()))
        return None
    if k > 1 and np.any(np.diff(d2, axis=1) < -1e-12):
        bad("c11:knn-order", "%s k=%d: distances not nearest-first" % (info, k))
    if any(len(set(r.tolist())) != k for r in i2):
        bad("c11:knn-duplicates", "%s k=%d: an element is returned twice" % (info, k))
    # the other documented call forms answer the same question: indices only (still nearest first), breadth-first and dual-tree traversal
    q = coords[0] if single else coords
    for vname, kw in (("return_distance=False", {"return_distance": False}), ("breadth_first=True", {"breadth_first": True}), ("dualtree=True", {"dualtree": True})):
        if vname != "return_distance=False" and k not in (1, 2, D.shape[1]):
            continue  # traversal variants: smallest and largest k only
        try:
            r = t.query(q, k=k, in_radians=radians, **kw) if system == "spherical" else t.query(q, k=k, **kw)
        except Exception as e:
            bad("c11:query-raises:%s:%s" % (vname.split("=")[0], type(e).__name__), "%s query(k=%d, %s) raised %r" % (info, k, vname, e))
            return None
        iv = np.asarray(r if vname == "return_distance=False" else r[1])
        try:
            iv = iv.reshape(nq, k).astype(int)
        except Exception:
            bad("c11:shape:%s" % vname.split("=")[0], "%s k=%d %s: index shape %s for %d queries" % (info, k, vname, np.asarray(iv).shape, nq))
            return None
        if iv.min() < 0 or iv.max() >= D.shape[1]:
            bad("c11:knn-index-range", "%s k=%d %s: index out of range" % (info, k, vname))
            return None
        ownv = np.take_along_axis(Dq, iv, axis=1)
        if not np.all(np.abs(ownv - want) <= tol):
            qq = int(np.argwhere(~(np.abs(ownv - want) <= tol))[0][0])
            bad("c11:knn-%s:%s-%s-%s" % ((vname.split("=")[0],) + tree), "%s k=%d %s, query (lon %.2f, lat %.2f): returned indices %s are at distances %s, brute force nearest-first %s" % (info, k, vname, qlon[qq], qlat[qq], iv[qq].tolist(), ownv[qq].tolist(), want[qq].tolist()))
            return None
    return i2


def run_lattice(case, res):
    V = res["violations"]
    m = meshes.get(case["mesh"])
    tree = tuple(case["tree"])
    kind = case["kind"]
    pool.fresh()
    gref = build.grid(m)
    elon, elat, exyz = _elements(gref, kind)
    n = len(elon)
    qlon = np.array([a for a in QLON for b in QLAT] + elon.tolist())
    qlat = np.array([b for a in QLON for b in QLAT] + elat.tolist())
    # poles: longitude is irrelevant but must be a legal number
    D = _brute(tree, qlon, qlat, elon, elat, exyz)
    pool.fresh()  # the reference grid was read in its own execution: nothing it left behind may reach the grid under test
    g = build.grid(m)
    focus = dict(case)

    def bad(sig, msg):
        V.append({"oracle": "knn" if "knn" in sig or "query" in sig or "shape" in sig else "radius", "sig": sig, "msg": "grid %s, %s of %s/%s/%s: %s" % ((case["mesh"], kind) + tree + (msg,)), "focus": focus})

    try:
        t = _get_tree(g, tree, kind)
    except Exception as e:
        bad("c11:tree-raises:%s" % type(e).__name__, "requesting the tree raised %r" % (e,))
        res["evaluations"] += 1
        return res
    info = "batch"
    am = 0
    for k in sorted(set(range(1, n + 1, case.get("kstep", 1))) | {n}):
        for radians in ((False, True) if tree[1] == "spherical" else (False,)):
            i2 = _check_knn(t, tree, kind, qlon, qlat, D, k, radians, False, bad, "batch")
            res["evaluations"] += len(qlon)
            res["transitions"] += 1
            if i2 is not None and k >= 2:
                # queries whose k nearest straddle the antimeridian
                lo = elon[i2.astype(int)]
                am += int(np.sum((lo.max(axis=1) > 150) & (lo.min(axis=1) < -150)))
        for qi in (0, 37, len(qlon) - 1):
            _check_knn(t, tree, kind, qlon[qi:qi + 1], qlat[qi:qi + 1], D[qi:qi + 1], k, False, True, bad, "single")
            res["evaluations"] += 1
    # radius queries
    which, system, metric = tree
    if system == "cartesian" or (which == "ball") or (which == "kd" and system == "spherical"):
        ee = _brute(tree, elon, elat, elon, elat, exyz)
        off = ee[~np.eye(n, dtype=bool)] if n > 1 else np.array([1.0])
        radii = [0.0, 0.5 * float(off.min()), float(np.median(off)), np.pi / 2, 3.0]  # radii beyond pi are meaningless on the sphere (sklearn folds them back)
        radians = which == "kd" and system == "spherical"
        for r in radii:
            for qi in range(0, len(qlon), 7):
                drow = D[qi]
                rr = r
                while np.any(np.abs(drow - rr) < 1e-7):
                    rr += 3e-7
                want = set(np.nonzero(drow <= rr)[0].tolist())
                coords = _coords(tree, qlon[qi:qi + 1], qlat[qi:qi + 1], radians)[0]
                r_arg = rr if (system == "cartesian" or radians) else float(np.rad2deg(rr))
                try:
                    if system == "spherical":
                        dd, ii = t.query_radius(coords, r=r_arg, return_distance=True, in_radians=radians)
                    else:
                        dd, ii = t.query_radius(coords, r=r_arg, return_distance=True)
                except Exception as e:
                    bad("c11:radius-raises:%s" % type(e).__name__, "query_radius(r=%g) raised %r" % (r_arg, e))
                    continue
                res["evaluations"] += 1
                res["transitions"] += 1
                got = set(np.asarray(ii).ravel().astype(int).tolist())
                if got != want:
                    bad("c11:radius-set:%s-%s-%s" % tree, "query_radius at (lon %.2f, lat %.2f) r=%g: got %s, brute force %s" % (qlon[qi], qlat[qi], r_arg, sorted(got), sorted(want)))
                    continue
                dv = np.asarray(dd, dtype=float).ravel()
                if system == "spherical" and not radians:
                    dv = np.deg2rad(dv)
                iv = np.asarray(ii).ravel().astype(int)
                if len(iv) and not np.all(np.abs(dv - drow[iv]) <= _tol(tree, drow[iv])):
                    bad("c11:radius-distances:%s-%s-%s" % tree, "query_radius at (lon %.2f, lat %.2f) r=%g: distances %s for indices %s, brute force %s" % (qlon[qi], qlat[qi], r_arg, dv.tolist(), iv.tolist(), drow[iv].tolist()))
                    continue
                # the other documented call forms: sorted results (nearest first, distance j belongs to index j), indices only, count only
                try:
                    kw = {"in_radians": radians} if system == "spherical" else {}
                    ds_, is_ = t.query_radius(coords, r=r_arg, return_distance=True, sort_results=True, **kw)
                    i_only = t.query_radius(coords, r=r_arg, **kw)
                    cnt = t.query_radius(coords, r=r_arg, count_only=True, **kw)
                except Exception as e:
                    bad("c11:radius-raises:%s" % type(e).__name__, "query_radius(r=%g) call forms raised %r" % (r_arg, e))
                    continue
                dsv = np.asarray(ds_, dtype=float).ravel()
                if system == "spherical" and not radians:
                    dsv = np.deg2rad(dsv)
                isv = np.asarray(is_).ravel().astype(int)
                if set(isv.tolist()) != want or (len(isv) and not np.all(np.abs(dsv - drow[isv]) <= _tol(tree, drow[isv]))) or np.any(np.diff(dsv) < -1e-12):
                    bad("c11:radius-sorted:%s-%s-%s" % tree, "query_radius(sort_results=True) at (lon %.2f, lat %.2f) r=%g: indices %s with distances %s; brute force distances of those indices %s" % (qlon[qi], qlat[qi], r_arg, isv.tolist()[:8], dsv.tolist()[:8], drow[isv].tolist()[:8]))
                if set(np.asarray(i_only).ravel().astype(int).tolist()) != want:
                    bad("c11:radius-set:%s-%s-%s" % tree, "query_radius (indices only) at (lon %.2f, lat %.2f) r=%g: got %s, brute force %s" % (qlon[qi], qlat[qi], r_arg, sorted(np.asarray(i_only).ravel().tolist()), sorted(want)))
                if int(np.asarray(cnt).ravel()[0]) != len(want):
                    bad("c11:radius-count:%s-%s-%s" % tree, "query_radius(count_only=True) at (lon %.2f, lat %.2f) r=%g: %s, brute force %d" % (qlon[qi], qlat[qi], r_arg, cnt, len(want)))
    key = digest(("lattice", case["mesh"], kind, tree))
    res["states"].append(key)
    if am or tree[1] == "cartesian":
        res["nontrivial"].append(key)
    res["outcomes"].append(digest(np.round(np.sort(D, axis=1)[:, : min(3, n)], 9)))
    res["axes"] = {"tree": {"%s/%s/%s" % tree: res["evaluations"]}, "kind": {kind: res["evaluations"]}, "antimeridian_straddling_queries": {case["mesh"]: am}}
    res["sample"] = {"mesh": case["mesh"], "kind": kind, "tree": list(tree), "n_elements": n, "n_queries": len(qlon)}
    return res


# --------------------------------------------------------------------------- request histories
def _requests():
    out = []
    for which, system, metric in TREES[:4] + [TREES[5]]:
        for kind in KINDS:
            out.append((which, system, metric, kind, False))
    for which, system, metric in (TREES[0], TREES[2]):
        out.append((which, system, metric, "nodes", True))
        out.append((which, system, metric, "face centers", True))
    return out


def run_history_block(case, res):
    V = res["violations"]
    m = meshes.get(case["mesh"])
    reqs = _requests()
    depth = case["depth"]
    first = case["first"]
    pool.fresh()
    gref = build.grid(m)
    el = {k: _elements(gref, k) for k in KINDS}
    qlon = np.array([-179.0, 31.0, 10.0, 179.5])
    qlat = np.array([-3.0, 12.0, 88.0, 9.0])
    Dcache = {}
    last = None
    alphabet = case.get("alphabet") or list(range(len(reqs)))
    for rest in itertools.product(alphabet, repeat=depth - 1):
        seq = (first,) + rest
        if "only" in case and list(seq) != case["only"]:
            continue
        pool.fresh()
        g = build.grid(m)
        t = None
        ok = True
        for ri in seq:
            which, system, metric, kind, recon = reqs[ri]
            try:
                t = _get_tree(g, (which, system, metric), kind, recon)
            except Exception as e:
                V.append({"oracle": "history", "sig": "c11:history:request-raises:%s" % type(e).__name__, "msg": "request sequence %s raised %r" % ([reqs[i] for i in seq], e), "focus": dict(case, only=list(seq))})
                ok = False
                break
        res["evaluations"] += 1
        res["transitions"] += len(seq)
        key = digest(("hist", case["mesh"], seq))
        res["states"].append(key)
        systems = {(reqs[i][0], reqs[i][1], reqs[i][2]) for i in seq if reqs[i][0] == reqs[seq[-1]][0]}
        if len(systems) > 1:
            res["nontrivial"].append(key)
        if not ok:
            continue
        which, system, metric, kind, recon = reqs[seq[-1]]
        tree = (which, system, metric)
        dk = (tree, kind)
        if dk not in Dcache:
            Dcache[dk] = _brute(tree, qlon, qlat, *el[kind])
        D = Dcache[dk]

        def bad(sig, msg, seq=seq):
            V.append({"oracle": "history", "sig": sig.replace("c11:", "c11:history:", 1), "msg": "grid %s after requests %s: the tree handed back does not answer for the last request: %s" % (case["mesh"], [reqs[i] for i in seq], msg), "focus": dict(case, only=list(seq))})

        n = D.shape[1]
        for k in sorted({1, min(3, n), n}):  # k = n: every element of the kind requested last (the admissible k range follows the request too)
            _check_knn(t, tree, kind, qlon, qlat, D, k, False, False, bad, "last=%s/%s/%s %s" % (tree + (kind,)))
        last = seq
        res["outcomes"].append(digest((seq[-1],)))
    res["axes"] = {"history_depth": {str(depth): res["evaluations"]}}
    res["sample"] = {"mesh": case["mesh"], "requests": [list(map(str, reqs[i])) for i in (last or (first,))]}
    return res


def cases(tier):
    out = []
    gl = ["amstrip", "polefan", "cube"] if tier == "quick" else ["amstrip", "polefan", "cube", "polecap", "mixedpatch", "icosa"]
    for mesh in gl:
        for kind in KINDS:
            for tree in TREES:
                out.append({"kind_": "lattice", "mesh": mesh, "kind": kind, "tree": list(tree)})
    # one element set with more than 2 x 40 members (sklearn's default leaf size: multi-leaf trees traverse differently)
    for tree in TREES:
        out.append({"kind_": "lattice", "mesh": "cs3", "kind": "edge centers", "tree": list(tree), "kstep": 9})
    nreq = len(_requests())
    hl = [("amstrip", 2)] if tier == "quick" else [("amstrip", 3), ("polefan", 2), ("cube", 2)]
    for mesh, d in hl:
        for first in range(nreq):
            out.append({"kind_": "history", "mesh": mesh, "depth": d, "first": first})
    if tier == "quick":
        # depth 3 over the 12 plain requests of the two default trees + their cartesian variants (A, B, A patterns: return to a tree built earlier)
        R = _requests()
        sub = [i for i, r in enumerate(R) if not r[4] and (r[0], r[1], r[2]) in (TREES[0], TREES[1], TREES[2], TREES[5])]
        for first in sub:
            out.append({"kind_": "history", "mesh": "amstrip", "depth": 3, "first": first, "alphabet": sub})
    return out


def selftest_case(tier):
    return {"kind_": "lattice", "mesh": "amstrip", "kind": "face centers", "tree": list(TREES[0])}


def warmup(tier):
    run_case({"kind_": "lattice", "mesh": "single3", "kind": "edge centers", "tree": list(TREES[0])})
    run_case({"kind_": "history", "mesh": "single3", "depth": 1, "first": 0})


def run_case(case):
    res = {"violations": [], "evaluations": 0, "transitions": 0, "nontrivial": [], "outcomes": [], "axes": {}, "states": []}
    if case["kind_"] == "lattice":
        return run_lattice(case, res)
    return run_history_block(case, res)


def run(ctx):
    ctx.map(run_case, cases(ctx.tier))
