"""C09 -- Subsets and cross-sections are faithful, fully functional restrictions.

Explorers I + H (+ schedule exploration of the prange latitude scan):
  select : every selection of a finite menu on small grids, after every prior history of the source (sets of <= k
           materialised derived variables, saturated state), judged against a brute-force reference selection;
           the result must be a fully functional Grid (C02/C03 set models on the result, geometry vs a grid built
           from scratch from the same arrays) and carry face/node/edge-centred data on the same physical elements.
  sched  : the latitude-scan kernel's Python body executed under *every* iteration order of its prange loop
           (all n! orders for n_edge <= 6, all 2-/3-block partitions x interleavings above) with the read/write
           footprint of every iteration recorded: iterations must be pairwise independent; plus numba thread
           counts {1,2,3,4,8,16} on the compiled kernel (workqueue layer in-process, omp layer in a spawned process).
"""

import itertools
import os

import numpy as np

from vf.alpha import build, meshes
from vf.core import pool
from vf.core.state import digest
from vf.oracle import conn, faces as F, sph

ID = "C09"
RULE = (
    "grids {mixed 3..6-gon patch, cube, prism, antimeridian strip, pyramid shipping its own (reversed) edge table, pyramid read from an MPAS source (metres, supplied tables)} x selections {isel(n_face=S) for every non-empty "
    "subset S (sorted, reversed, scalar, single, all); isel(n_node=S), isel(n_edge=S) for |S|<=2 and all; bounding_box over a lattice incl. antimeridian-spanning boxes; "
    "bounding_circle over centres x radii; nearest_neighbor for every k; x element kinds; constant_latitude for every node latitude, every midpoint between consecutive "
    "node latitudes and +-1e-9 next to node latitudes} x prior histories of the source {none, every set of <= k of (8 derived variables + 3 earlier selections on the same source: cross-section, isel, nearest neighbour), saturated} x data {face, node, "
    "edge identity fields, leading dims (), (2)}. non-trivial = selection that drops at least one face and keeps at least one; distinct = (grid, history, selection)"
)
ASSUMPTIONS = [
    "reference selections by brute force on the mesh: node/edge index sets select every face touching them; coordinate selections select elements whose reference point "
    "(as a fresh source grid reports it) is inside the region with a 1e-7 margin (closer cases are not generated); cross-section = faces with an edge whose end-node z "
    "values lie strictly on opposite sides of sin(lat), decided with a 1e-12 margin",
    "result faces are compared by position with the source faces named by subgrid_face_indices; order is whatever the recorded indices say",
    "fully functional = C02/C03 set models hold on the result for its own face table, every node/face/edge coordinate, area and distance equals the fresh source's value restricted to the recorded indices, and (for sources that do not supply them) equals independent geodesy on the result's own arrays",
    "native numba thread interleavings are not controllable: they are covered as configurations (thread counts x layers) and by exhaustive iteration-order exploration of the kernel's Python body with footprint-based independence",
]
BOUNDS = {
    "quick": "4 grids (one read from an MPAS source: coordinates in metres, supplied tables), histories over 8 derived variables + 3 earlier selections on the same source (cross-section, isel, nearest neighbour): none + singles + saturated, subsets of <= 6 faces, iteration orders for n_edge <= 6 (720 orders)",
    "thorough": "7 grids (incl. a kilometre-scale patch across the antimeridian), histories: none + singles + pairs + saturated, iteration orders n_edge <= 7 (5040) and block partitions on larger grids",
}
MATS = ["edge_node_connectivity", "face_edge_connectivity", "edge_face_connectivity", "node_face_connectivity", "face_lon", "edge_lon", "node_x", "face_areas"]
SAT = MATS + ["face_face_connectivity", "edge_node_distances", "edge_face_distances", "bounds", "hole_edge_indices", "n_nodes_per_face", "edge_node_z"]
GRIDS_Q = ["mixedpatch", "cube", "ships:pyr5", "mpas:pyr5"]
GRIDS_T = GRIDS_Q + ["amstrip", "prism", "finequads-am"]


def _grid(name):
    import uxarray as ux

    if name.startswith("ships:"):
        m = meshes.get(name[6:])
        lon, lat = m.lonlat()
        keys = sorted(conn.edge_model(m.faces), key=lambda k: sorted(k))
        en = np.array([sorted(k) for k in reversed(keys)], dtype=np.intp)
        return ux.Grid.from_topology(lon.copy(), lat.copy(), m.table(), fill_value=build.FILL, edge_node_connectivity=en), m
    if name.startswith("mpas:"):
        from vf.alpha import dialects as D

        m = meshes.get(name[5:])
        return ux.open_grid(D.mpas(m, optional="all")[0]), m
    m = meshes.get(name)
    return build.grid(m), m


PRIOR = ["sel:xsec", "sel:isel", "sel:nn"]  # earlier selections on the same source (they materialise / touch derived variables too)


def _histories(k):
    out = [("none", [])]
    for r in range(1, k + 1):
        for c in itertools.combinations(MATS + PRIOR, r):
            out.append(("+".join(c), list(c)))
    out.append(("saturated", SAT + PRIOR))
    return out


def _mid_lat(m):
    la = np.unique(np.round(m.lonlat()[1], 6))
    la = la[(la > -89) & (la < 89)]
    return float((la[len(la) // 2 - 1] + la[len(la) // 2]) / 2) if len(la) > 1 else float(la[0]) + 0.25


def _do(g, a, m):
    """one history step on the source grid"""
    if a == "sel:xsec":
        try:
            g.cross_section.constant_latitude(_mid_lat(m))
        except ValueError:
            pass  # no face crosses that parallel
    elif a == "sel:isel":
        g.isel(n_face=[0])
    elif a == "sel:nn":
        g.subset.nearest_neighbor((10.0, 5.0), k=1, element="nodes")
    else:
        getattr(g, a)


# ----------------------------------------------------------------------------- selections
def _selections(gname, m, tier):
    """list of (descr dict, callable(grid_or_da) -> result, expected face set or None)"""
    gref, _ = _grid(gname)
    P = np.array(m.points)
    nlon, nlat = m.lonlat()
    flon, flat = np.asarray(gref.face_lon.values), np.asarray(gref.face_lat.values)
    elon, elat = np.asarray(gref.edge_lon.values), np.asarray(gref.edge_lat.values)
    en = np.asarray(gref.edge_node_connectivity.values)
    nfaces = m.n_face
    face_sets = [set(f) for f in m.faces]
    edge_faces = []
    for a, b in en.tolist():
        edge_faces.append({fi for fi, f in enumerate(m.faces) if _has_edge(f, a, b)})
    out = []

    def faces_of_nodes(S):
        return {fi for fi, fs in enumerate(face_sets) if fs & set(S)}

    def faces_of_edges(S):
        r = set()
        for e in S:
            r |= edge_faces[e]
        return r

    # A. isel(n_face=S)
    F_ = min(nfaces, 6)
    for mask in range(1, 2 ** F_):
        ids = [i for i in range(F_) if mask >> i & 1]
        out.append(({"sel": "isel", "dim": "n_face", "idx": ids}, set(ids)))
        if len(ids) > 1:
            out.append(({"sel": "isel", "dim": "n_face", "idx": ids[::-1]}, set(ids)))
    out.append(({"sel": "isel", "dim": "n_face", "idx": 0, "scalar": True}, {0}))
    out.append(({"sel": "isel", "dim": "n_face", "idx": list(range(nfaces))}, set(range(nfaces))))
    # B. nodes / edges
    for dim, n, fn in (("n_node", m.n_node, faces_of_nodes), ("n_edge", len(en), faces_of_edges)):
        cand = [[i] for i in range(n)] + [[i, j] for i in range(n) for j in range(i + 1, n) if (i + j) % 3 == 0]
        if tier == "quick":
            cand = cand[: n + 6]
        for S in cand:
            out.append(({"sel": "isel", "dim": dim, "idx": S}, fn(S)))
        out.append(({"sel": "isel", "dim": dim, "idx": list(range(n))[::-1]}, fn(range(n))))
        out.append(({"sel": "isel", "dim": dim, "idx": n - 1, "scalar": True}, fn([n - 1])))
    # C. bounding boxes
    kinds = {"nodes": (nlon, nlat, faces_of_nodes), "face centers": (flon, flat, lambda S: set(S)), "edge centers": (elon, elat, faces_of_edges)}
    lons = sorted(set(np.round(np.concatenate([nlon, flon]), 6)))
    lats = sorted(set(np.round(np.concatenate([nlat, flat]), 6)))
    lon_cuts = _cuts(lons, -180.0, 180.0)
    lat_cuts = _cuts(lats, -90.0, 90.0)
    boxes = []
    for (a, b) in _pairs(lon_cuts, 4 if tier == "quick" else 6):
        for (c, d) in _pairs(lat_cuts, 3 if tier == "quick" else 5):
            boxes.append(((a, b), (c, d)))
            boxes.append(((b, a), (c, d)))  # antimeridian-spanning box (descending longitudes)
    for element, (lo, la, fn) in kinds.items():
        for (lb, tb) in boxes:
            inside, ok = _in_box(lo, la, lb, tb)
            if not ok or not inside.any():
                continue
            out.append(({"sel": "bbox", "lon": list(lb), "lat": list(tb), "element": element}, fn(np.nonzero(inside)[0].tolist())))
    # D. circles and nearest neighbours
    centres = [(float(nlon[0]) + 0.37, float(nlat[0]) - 0.21), (float(flon[-1]) + 0.11, float(flat[-1]) + 0.13), (-179.3, 4.2), (12.0, 88.0)]
    for element, (lo, la, fn) in kinds.items():
        E = sph.ll2xyz(lo, la)
        for (clon, clat) in centres:
            d = np.rad2deg(sph.angle(sph.ll2xyz(clon, clat)[None, :], E))
            order = np.argsort(d)
            ds = d[order]
            for r in sorted({float(ds[0]) + 1e-3, float(np.median(ds)) + 1e-3, float(ds[-1]) + 1e-3}):
                if np.any(np.abs(ds - r) < 1e-6):
                    continue
                S = np.nonzero(d <= r)[0].tolist()
                out.append(({"sel": "bcircle", "center": [clon, clat], "r": r, "element": element}, fn(S)))
            for k in range(1, len(lo) + 1):
                if k < len(lo) and abs(ds[k] - ds[k - 1]) < 1e-7:
                    continue  # tie at the boundary
                out.append(({"sel": "nn", "center": [clon, clat], "k": k, "element": element}, fn(order[:k].tolist())))
    # E. constant-latitude cross-sections
    z = P[:, 2]
    nl = np.degrees(np.arcsin(np.clip(z, -1, 1)))
    uniq = sorted(set(np.round(nl, 9)))
    lat_menu = []
    for u in uniq:
        lat_menu += [u, u - 1e-9, u + 1e-9]
    lat_menu += [(a + b) / 2 for a, b in zip(uniq, uniq[1:])]
    lat_menu += [min(uniq) - 1.0, max(uniq) + 1.0]
    for lat in lat_menu:
        if not -89.9 < lat < 89.9:
            continue
        zc = np.sin(np.deg2rad(lat))
        s = z - zc
        if np.any((np.abs(s) < 1e-12) & (np.abs(s) > 0)):
            continue
        # the library reads z through lon/lat -> xyz conversion: equal-latitude cases are decided on its own doubles elsewhere;
        # here only margins >= 1e-12 are generated, except the exact node latitudes (s may be +-1 ulp): those are skipped
        if np.any(np.abs(s) < 1e-12):
            continue
        exp = set()
        for k, (a, b) in enumerate(en.tolist()):
            if s[a] * s[b] < 0:
                exp |= edge_faces[k]
        out.append(({"sel": "xsec", "lat": float(lat)}, exp))
    return out


def _has_edge(f, a, b):
    n = len(f)
    return any({f[j], f[(j + 1) % n]} == {a, b} for j in range(n))


def _cuts(vals, lo, hi):
    """cut positions strictly between consecutive distinct values (margin >= 1e-4)"""
    out = [max(lo, vals[0] - 0.5)]
    for a, b in zip(vals, vals[1:]):
        if b - a > 2e-4:
            out.append((a + b) / 2)
    out.append(min(hi, vals[-1] + 0.5))
    return out


def _pairs(cuts, cap):
    idx = np.unique(np.linspace(0, len(cuts) - 1, min(cap, len(cuts))).astype(int))
    c = [cuts[i] for i in idx]
    return [(c[i], c[j]) for i in range(len(c)) for j in range(i + 1, len(c))]


def _in_box(lon, lat, lb, tb):
    m = 1e-7
    if lb[0] <= lb[1]:
        inlon = (lon > lb[0]) & (lon < lb[1])
        near = (np.abs(lon - lb[0]) < m) | (np.abs(lon - lb[1]) < m)
    else:
        inlon = (lon > lb[0]) | (lon < lb[1])
        near = (np.abs(lon - lb[0]) < m) | (np.abs(lon - lb[1]) < m) | (np.abs(np.abs(lon) - 180.0) < m)
    inlat = (lat > tb[0]) & (lat < tb[1])
    near |= (np.abs(lat - tb[0]) < m) | (np.abs(lat - tb[1]) < m)
    return inlon & inlat, not near.any()


def _apply(sel, obj):
    """obj: Grid or UxDataArray"""
    k = sel["sel"]
    if k == "isel":
        idx = sel["idx"]
        return obj.isel(**{sel["dim"]: idx})
    if k == "bbox":
        return obj.subset.bounding_box(tuple(sel["lon"]), tuple(sel["lat"]), element=sel["element"])
    if k == "bcircle":
        return obj.subset.bounding_circle(tuple(sel["center"]), sel["r"], element=sel["element"])
    if k == "nn":
        return obj.subset.nearest_neighbor(tuple(sel["center"]), k=sel["k"], element=sel["element"])
    if k == "xsec":
        return obj.cross_section.constant_latitude(sel["lat"])
    raise ValueError(k)


# ----------------------------------------------------------------------------- judging a result
def judge(R, m, expected, bad, deep=True, src_grid=None, supplied=False):
    """R: result Grid of a selection on mesh m (source order)."""
    src = F.faces_of_mesh(m)
    try:
        got = F.faces_of_grid(R)
        sfi = np.asarray(R._ds["subgrid_face_indices"].values).astype(int).tolist() if "subgrid_face_indices" in R._ds else None
    except Exception as e:
        bad("c09:result-unreadable:%s" % type(e).__name__, repr(e))
        return
    if sfi is None:
        bad("c09:no-source-indices", "result does not record subgrid_face_indices")
        return
    if len(set(sfi)) != len(sfi):
        bad("c09:duplicate-faces", "recorded source faces contain duplicates: %s" % sfi)
    if set(sfi) != set(expected):
        bad("c09:wrong-faces", "selected source faces %s, reference selection %s" % (sorted(set(sfi)), sorted(expected)))
        return
    if len(got) != len(sfi):
        bad("c09:n_face-vs-indices", "result has %d faces but records %d source indices" % (len(got), len(sfi)))
        return
    for i, (gf, si) in enumerate(zip(got, sfi)):
        if not F.same_face(gf, src[si], 1e-9):
            bad("c09:face-corners-changed", "result face %d is recorded as source face %d but its corners differ: %s vs %s" % (i, si, F._fmt(gf), F._fmt(src[si])))
            return
    sf = F.standard_form(R)
    if sf:
        bad("c09:non-standard-table", "; ".join(sf[:3]))
        return
    if not deep:
        return
    # fully functional: derived connectivity consistent with the result's own face table
    tab = np.asarray(R._ds["face_node_connectivity"].values)
    rfaces = [tuple(int(i) for i in row if i != build.FILL) for row in tab]
    n_node = int(R._ds.sizes["n_node"])
    v = conn.V()
    try:
        conn.check_c02(R, rfaces, n_node, tab.shape[1], False, v)
        if conn.manifold(rfaces):
            conn.check_c03(R, rfaces, n_node, v)
    except Exception as e:
        bad("c09:functional:raises:%s" % type(e).__name__, "deriving connectivity on the result raised %r" % (e,))
        return
    for it in v.items:
        bad("c09:functional:" + it["sig"], "on the result grid: " + it["msg"])
    if v.items:
        return
    # every geometric quantity on the result = the source's quantity restricted to the selection
    if src_grid is not None:
        try:
            ds = R._ds
            idx = {"n_face": np.asarray(ds["subgrid_face_indices"].values).astype(int), "n_node": np.asarray(ds["subgrid_node_indices"].values).astype(int), "n_edge": np.asarray(ds["subgrid_edge_indices"].values).astype(int)}
            for q in ("node_lon", "node_lat", "node_x", "node_y", "node_z", "face_lon", "face_lat", "face_x", "face_y", "face_z", "edge_lon", "edge_lat", "edge_x", "edge_y", "edge_z", "face_areas", "edge_node_distances", "edge_face_distances_boundary_free", "n_nodes_per_face"):
                if q == "edge_face_distances_boundary_free":
                    continue  # edges can become boundary edges in a subset: not a restriction
                a = np.asarray(getattr(R, q).values)
                b = np.asarray(getattr(src_grid, q).values)
                dim = getattr(R, q).dims[0]
                want = b[idx[dim]]
                if a.shape != want.shape or not np.allclose(a.astype(float), want.astype(float), rtol=1e-12, atol=1e-12):
                    bad("c09:functional:restriction:%s" % q, "%s on the result is not the source's %s restricted to the recorded %s indices" % (q, q, dim))
        except Exception as e:
            bad("c09:functional:restriction-raises:%s" % type(e).__name__, "reading geometry on the result raised %r" % (e,))
    if supplied:
        return
    # geometry on the result vs independent geodesy on the result's own arrays
    try:
        lon, lat = np.asarray(R.node_lon.values, float), np.asarray(R.node_lat.values, float)
        Pn = sph.ll2xyz(lon, lat)
        en = np.asarray(R.edge_node_connectivity.values)
        checks = []
        xyz = np.stack([R.node_x.values, R.node_y.values, R.node_z.values], axis=-1)
        checks.append(("node_xyz", sph.angle(sph.unit(xyz), Pn), 0.0))
        cf = sph.ll2xyz(R.face_lon.values, R.face_lat.values)
        want_c = np.array([sph.unit(Pn[list(f)].mean(axis=0)) for f in rfaces])
        src_c = None
        checks.append(("face_centres", sph.angle(cf, want_c), 0.0))
        ce = sph.ll2xyz(R.edge_lon.values, R.edge_lat.values)
        checks.append(("edge_centres", sph.angle(ce, sph.unit(Pn[en[:, 0]] + Pn[en[:, 1]])), 0.0))
        checks.append(("edge_node_distances", np.asarray(R.edge_node_distances.values) - sph.angle(Pn[en[:, 0]], Pn[en[:, 1]]), 0.0))
        areas = np.asarray(R.face_areas.values)
        scratch = __import__("uxarray").Grid.from_topology(lon.copy(), lat.copy(), tab.copy(), fill_value=build.FILL)
        checks.append(("face_areas", areas - np.asarray(scratch.face_areas.values), 0.0))
        ez = np.asarray(R.edge_node_z.values)
        checks.append(("edge_node_z", ez - Pn[:, 2][en], 0.0))
        for name, dev, _ in checks:
            if np.any(np.abs(dev) > 1e-9):
                bad("c09:functional:geometry:%s" % name, "%s on the result grid deviates from an independent computation on its own arrays by up to %.3g" % (name, float(np.max(np.abs(dev)))))
    except Exception as e:
        bad("c09:functional:geometry-raises:%s" % type(e).__name__, "deriving geometry on the result raised %r" % (e,))


def judge_data(gname, m, sel, g, bad):
    """identity fields on faces / nodes / edges sliced together with the grid"""
    import uxarray as ux

    src_faces = F.faces_of_mesh(m)
    P = np.array(m.points)
    en_src = np.asarray(g.edge_node_connectivity.values)
    for elem, n in (("n_face", m.n_face), ("n_node", m.n_node), ("n_edge", len(en_src))):
        for lead in ((), (2,)):
            data = build.lead_expand(np.arange(n, dtype=float), lead)
            da = build.uxda(g, data, elem, lead, name="ident")
            try:
                out = _apply(sel, da)
            except Exception as e:
                bad("c09:data:raises:%s:%s" % (elem, type(e).__name__), "slicing %s-centred data raised %r" % (elem, e))
                continue
            if not isinstance(out, ux.UxDataArray) or out.uxgrid is None:
                bad("c09:data:type", "result is %s" % type(out).__name__)
                continue
            R = out.uxgrid
            vals = np.asarray(out.values)
            ids = vals if not lead else vals[0]
            if lead and not np.array_equal(vals[1], build.lead_expand(ids, lead)[1]):
                bad("c09:data:leading-dims", "%s-centred data: leading index 1 is not the affine image of index 0 any more" % elem)
            try:
                if elem == "n_face":
                    got = F.faces_of_grid(R)
                    ok = len(got) == len(ids) and all(F.same_face(gf, src_faces[int(v)], 1e-9) for gf, v in zip(got, ids))
                elif elem == "n_node":
                    Pn = sph.ll2xyz(R.node_lon.values, R.node_lat.values)
                    ok = len(Pn) == len(ids) and bool(np.all(sph.angle(Pn, P[ids.astype(int)]) <= 1e-9))
                else:
                    Pn = sph.ll2xyz(R.node_lon.values, R.node_lat.values)
                    enr = np.asarray(R.edge_node_connectivity.values)
                    ok = len(enr) == len(ids)
                    if ok:
                        for (a, b), v in zip(enr.tolist(), ids.astype(int).tolist()):
                            sa, sb = en_src[v]
                            d1 = max(sph.angle(Pn[a], P[sa]), sph.angle(Pn[b], P[sb]))
                            d2 = max(sph.angle(Pn[a], P[sb]), sph.angle(Pn[b], P[sa]))
                            if min(d1, d2) > 1e-9:
                                ok = False
                                break
            except Exception as e:
                bad("c09:data:check-raises:%s:%s" % (elem, type(e).__name__), repr(e))
                continue
            if not ok:
                bad("c09:data:misaligned:%s" % elem, "%s-centred identity data no longer sit on their own elements after the selection (values %s)" % (elem, ids.tolist()[:12]))


# ----------------------------------------------------------------------------- cases
def cases(tier):
    out = []
    quick = tier == "quick"
    for gname in GRIDS_Q if quick else GRIDS_T:
        hs = _histories(1 if quick else 2)
        for hi in range(len(hs)):
            out.append({"kind": "select", "grid": gname, "tier": tier, "hist": hi, "hk": 1 if quick else 2})
    for mesh in (["single3", "single5", "tetra", "isolated"] if quick else ["single3", "single5", "tetra", "isolated", "cornertouch", "pyr4", "prism"]):
        out.append({"kind": "sched", "mesh": mesh, "tier": tier})
    for gname in GRIDS_Q if quick else GRIDS_T:
        out.append({"kind": "threads", "grid": gname})
    return out


def interp_cases(tier):
    """interpreted pass (NUMBA_DISABLE_JIT=1): every 40th selection on two grids"""
    return [{"kind": "select", "grid": "mixedpatch", "tier": "quick", "hist": 0, "hk": 1, "cap": 40}, {"kind": "select", "grid": "mpas:pyr5", "tier": "quick", "hist": 0, "hk": 1, "cap": 40}]


def selftest_case(tier):
    return {"kind": "select", "grid": "cube", "tier": "quick", "hist": 0, "hk": 1}


def warmup(tier):
    run_case({"kind": "select", "grid": "ships:pyr5", "tier": "quick", "hist": 0, "hk": 1, "cap": 40})
    import os

    if os.environ.get("NUMBA_DISABLE_JIT") != "1":  # the schedule explorer instruments the jitted kernel's Python body itself
        run_case({"kind": "sched", "mesh": "single3", "tier": "quick"})


def worker_init():
    import numba

    numba.set_num_threads(1)


def run_case(case):
    res = {"violations": [], "evaluations": 0, "transitions": 0, "nontrivial": [], "outcomes": [], "axes": {}, "states": []}
    if case["kind"] == "select":
        return _run_select(case, res)
    if case["kind"] == "sched":
        return _run_sched(case, res)
    return _run_threads(case, res)


def _run_select(case, res):
    V = res["violations"]
    gname = case["grid"]
    _, m = _grid(gname)
    hname, hist = _histories(case["hk"])[case["hist"]]
    sels = _selections(gname, m, case["tier"])
    if "cap" in case:
        sels = sels[:: max(1, len(sels) // case["cap"])]
    kinds = {}
    for si, (sel, expected) in enumerate(sels):
        if "only" in case and sel != case["only"]:
            continue
        focus = dict(case, only=sel)
        focus.pop("cap", None)

        def bad(sig, msg, sel=sel, focus=focus):
            V.append({"oracle": "select", "sig": sig + ":" + sel["sel"] + (":" + sel.get("dim", sel.get("element", "")) if sel["sel"] != "xsec" else ""), "msg": "grid %s, source history {%s}, selection %s: %s" % (gname, hname, sel, msg), "focus": focus})

        pool.fresh()
        g, _ = _grid(gname)
        try:
            for a in hist:
                _do(g, a, m)
        except Exception as e:
            bad("c09:history-raises:%s" % type(e).__name__, repr(e))
            continue
        res["evaluations"] += 1
        res["transitions"] += 1 + len(hist)
        kinds[sel["sel"]] = kinds.get(sel["sel"], 0) + 1
        key = digest((gname, hname, sel))
        res["states"].append(key)
        if 0 < len(expected) < m.n_face:
            res["nontrivial"].append(key)
        try:
            R = _apply(sel, g)
        except Exception as e:
            if expected:
                bad("c09:raises:%s" % type(e).__name__, "raised %r, reference selection = faces %s" % (e, sorted(expected)))
            else:
                res["outcomes"].append("raises-on-empty")
            continue
        if not expected:
            try:
                nfr = int(R.n_face)
            except Exception:
                nfr = -1
            if nfr != 0:
                bad("c09:nonempty-for-empty-reference", "returned a grid with %d faces, reference selection is empty" % nfr)
            continue
        src_fresh, _ = _grid(gname)
        judge(R, m, expected, bad, deep=True, src_grid=src_fresh, supplied=gname.startswith("mpas:"))
        res["outcomes"].append(digest(sorted(expected)))
        # data: on every 3rd selection (all kinds are hit), with the same prior history
        if si % 3 == 0 or "only" in case:
            pool.fresh()
            g2, _ = _grid(gname)
            for a in hist:
                _do(g2, a, m)
            judge_data(gname, m, sel, g2, bad)
            res["transitions"] += 6
    res["axes"] = {"grid": {gname: res["evaluations"]}, "history": {hname if len(hname) < 40 else hname[:40]: res["evaluations"]}, "selection_kind": kinds}
    res["sample"] = {"grid": gname, "history": hname, "n_selections": len(sels)}
    return res


# ----------------------------------------------------------------------------- schedules
class _Log(np.ndarray):
    """ndarray that records which iteration reads / writes which element"""

    def __new__(cls, arr, name, log):
        o = np.asarray(arr).view(cls)
        o._nm = name
        o._lg = log
        return o

    def __array_finalize__(self, obj):
        self._nm = getattr(obj, "_nm", "?")
        self._lg = getattr(obj, "_lg", None)

    def __getitem__(self, k):
        if self._lg is not None:
            self._lg.append((_CUR[0], "r", self._nm, repr(k)))
        return np.asarray(self).__getitem__(k)

    def __setitem__(self, k, v):
        if self._lg is not None:
            self._lg.append((_CUR[0], "w", self._nm, repr(k)))
        np.asarray(self).__setitem__(k, v)


_CUR = [None]


class _NpProxy:
    def __init__(self, log):
        self._log = log

    def zeros(self, *a, **k):
        return _Log(np.zeros(*a, **k), "mask", self._log)

    def __getattr__(self, n):
        return getattr(np, n)


def _orders(n, tier):
    if n <= (6 if tier == "quick" else 7):
        for p in itertools.permutations(range(n)):
            yield "perm", p
        return
    # block partitions into 2 and 3 contiguous chunks (numba's static scheduling), every interleaving of the chunks' iterations
    for nb in (2, 3):
        size = (n + nb - 1) // nb
        blocks = [list(range(i, min(n, i + size))) for i in range(0, n, size)]
        if sum(len(b) for b in blocks) > 9:
            blocks = [b[:3] for b in blocks]  # interleavings of the first 3 iterations of every block, rest in order
        for order in _interleavings(blocks):
            rest = [i for i in range(n) if i not in order]
            yield "blocks%d" % nb, tuple(order) + tuple(rest)


def _interleavings(blocks):
    blocks = [b for b in blocks if b]
    if not blocks:
        yield []
        return
    for bi, b in enumerate(blocks):
        rest = [x if j != bi else x[1:] for j, x in enumerate(blocks)]
        for tail in _interleavings(rest):
            yield [b[0]] + tail


def _run_sched(case, res):
    import uxarray.grid.intersections as I

    V = res["violations"]
    m = meshes.get(case["mesh"])
    pool.fresh()
    g = build.grid(m)
    ez = np.asarray(g.edge_node_z.values).copy()
    n_edge = int(g.n_edge)
    body = I.fast_constant_lat_intersections.py_func
    z = np.array(m.points)[:, 2]
    lats = sorted(set(np.round(np.degrees(np.arcsin(z)), 6)))
    menu = [(a + b) / 2 for a, b in zip(lats, lats[1:])] + [lats[0] - 1.0]
    old_prange, old_np = I.prange, I.np
    norders = 0
    try:
        # how many iterations does the parallel loop have? (learned from the code, not assumed)
        seen_n = []

        def probe_prange(n):
            seen_n.append(int(n))
            return range(n)

        I.prange = probe_prange
        try:
            body(menu[0], ez, n_edge)
        finally:
            I.prange = old_prange
        n_iter = seen_n[0] if seen_n else n_edge
        for lat in menu:
            ref = None
            for oname, order in _orders(n_iter, case["tier"]):
                log = []

                def fake_prange(n, order=order):
                    if n != len(order):
                        raise RuntimeError("prange(%d) but %d iterations were planned" % (n, len(order)))
                    for i in order:
                        _CUR[0] = i
                        yield i
                    _CUR[0] = None

                I.prange = fake_prange
                I.np = _NpProxy(log)
                _CUR[0] = None
                try:
                    out = body(lat, _Log(ez, "edge_node_z", log), n_edge)
                finally:
                    I.prange, I.np = old_prange, old_np
                out = np.asarray(out).ravel().tolist()
                norders += 1
                res["evaluations"] += 1
                res["transitions"] += n_iter
                focus = dict(case, lat=lat, order=list(order))
                if ref is None:
                    ref = out
                    zc = np.sin(np.deg2rad(lat))
                    truth = [int(i) for i in range(n_edge) if (ez[i, 0] - zc) * (ez[i, 1] - zc) < 0.0]
                    if out != truth:
                        V.append({"oracle": "sched", "sig": "c09:sched:body-misses-edges", "msg": "mesh %s lat %g: the loop body reports edges %s, edges whose end nodes lie on opposite sides: %s" % (case["mesh"], lat, out, truth), "focus": focus})
                    # compiled kernel agrees with its Python body
                    comp = np.asarray(I.fast_constant_lat_intersections(lat, ez, n_edge)).ravel().tolist()
                    if comp != out:
                        V.append({"oracle": "sched", "sig": "c09:sched:compiled-vs-python", "msg": "compiled kernel %s vs python body %s at lat %g" % (comp, out, lat), "focus": focus})
                elif out != ref:
                    V.append({"oracle": "sched", "sig": "c09:sched:order-dependent", "msg": "mesh %s lat %g: iteration order %s gives edges %s, order 0..n-1 gives %s" % (case["mesh"], lat, list(order), out, ref), "focus": focus})
                # footprint independence
                writes, reads = {}, {}
                for it, rw, nm, k in log:
                    if it is None:
                        continue
                    (writes if rw == "w" else reads).setdefault(it, set()).add((nm, k))
                for i in writes:
                    for j in set(writes) | set(reads):
                        if i == j:
                            continue
                        clash = writes[i] & (writes.get(j, set()) | reads.get(j, set()))
                        if clash:
                            V.append({"oracle": "sched", "sig": "c09:sched:iterations-not-independent", "msg": "mesh %s: iteration %d writes %s which iteration %d also touches" % (case["mesh"], i, sorted(clash)[:3], j), "focus": focus})
                            break
                    else:
                        continue
                    break
                res["outcomes"].append(digest(out))
    finally:
        I.prange, I.np = old_prange, old_np
    key = digest(("sched", case["mesh"]))
    res["states"].append(key)
    res["nontrivial"].append(key)
    res["nontrivial"].append(key + "b")
    res["axes"] = {"iteration_orders": {case["mesh"]: norders}}
    res["sample"] = {"mesh": case["mesh"], "n_edge": n_edge, "latitudes": len(menu), "orders": norders}
    return res


def _run_threads(case, res):
    import numba

    V = res["violations"]
    gname = case["grid"]
    _, m = _grid(gname)
    z = np.array(m.points)[:, 2]
    lats = sorted(set(np.round(np.degrees(np.arcsin(z)), 6)))
    menu = [(a + b) / 2 for a, b in zip(lats, lats[1:])]
    layer = os.environ.get("NUMBA_THREADING_LAYER", "?")
    for lat in menu:
        ref = None
        for nt in (1, 2, 3, 4, 8, 16):
            if nt > numba.config.NUMBA_NUM_THREADS:
                continue
            numba.set_num_threads(nt)
            pool.fresh()
            g, _ = _grid(gname)
            try:
                faces = np.asarray(g.get_faces_at_constant_latitude(lat)).ravel().tolist()
                sub = g.cross_section.constant_latitude(lat) if faces else None
                got = (faces, np.asarray(sub._ds["subgrid_face_indices"].values).tolist() if sub is not None else [])
            except Exception as e:
                got = ("raises", type(e).__name__)
            res["evaluations"] += 1
            res["transitions"] += 1
            if ref is None:
                ref = got
            elif got != ref:
                V.append({"oracle": "threads", "sig": "c09:threads:differs", "msg": "[layer %s] grid %s lat %g: %d threads give %s, 1 thread gives %s" % (layer, gname, lat, nt, got, ref), "focus": dict(case, lat=lat, threads=nt)})
        res["outcomes"].append(digest(ref))
    numba.set_num_threads(1)
    key = digest(("threads", gname, layer))
    res["states"].append(key)
    res["nontrivial"].append(key)
    res["axes"] = {"threads_layer": {layer: res["evaluations"]}}
    res["sample"] = {"grid": gname, "layer": layer, "threads": [1, 2, 3, 4, 8, 16]}
    return res


def run(ctx):
    ctx.map(run_case, cases(ctx.tier))
    # the omp threading layer needs its own (spawned) process
    from vf.core import subrun

    tc = [c for c in cases(ctx.tier) if c["kind"] == "threads"]
    try:
        results = subrun.run("vf.props.c09", tc, {"NUMBA_THREADING_LAYER": "omp"}, nproc=1)
        for r in results:
            c = r.pop("_case")
            ctx.add(dict(c, layer="omp"), r)
        ctx.extra["omp_layer_pass"] = {"cases": len(results)}
    except Exception as e:  # the layer may be unavailable: say so, do not fail the property on it
        ctx.extra["omp_layer_pass"] = "unavailable: %s" % str(e)[-300:]
