"""C14 -- Arc predicates and intersections agree with exact spherical geometry.

Explorer G, fully exact: great circles from rational orthonormal frames, arcs and on-circle points from rational
angles, off-circle points from a rational stereographic lattice.  Every expected answer is decided by exact sign
computations on fractions; a case is generated only if every decision quantity is at least MARGIN (1e-6 rad) away
from its boundary.  Inputs are then rounded to double and handed to the library.
"""

import itertools
import math

import numpy as np

from vf.alpha import sphere as S
from vf.core.state import digest

ID = "C14"
MARGIN = 1e-6
RULE = (
    "great circles = 20 rational frames (equator, planes through the poles, meridian planes, generic tilts) x arcs = all ordered pairs of 16 rational angles "
    "forming a minor arc of length in (1e-3, pi-1e-3); point_within_gca: every arc x every on-circle lattice angle (inside/outside, margin >= 1e-6 rad from the "
    "endpoints) x every off-circle lattice point (>= 1e-6 rad from the plane); gca_gca_intersection: all unordered pairs of an arc subset closed under endpoint swap, "
    "on different circles, every sign quantity >= 1e-6 rad; extreme_gca_latitude: every arc x the call sequence max, min, max on ONE caller-owned array (which must stay unchanged) with the interior-extremum decision >= 1e-6 rad; kilometre-scale arcs (0.03-0.3 degrees) on 6 local rational lattices (generic, equator/prime meridian, antimeridian, next to the pole, on a meridian): all pairs for gca_gca_intersection, meridian arcs for point_within_gca; nearly coplanar circles (tilt 2e-3, 2e-5, 2e-6 rad about a common diameter): all arc pairs; each case also "
    "with endpoints swapped, arcs swapped and rotated about the polar axis by 6 rational angles. non-trivial = arcs through/near a pole, across the antimeridian, or "
    "crossing pairs; distinct = (function, arc(s), query)"
)
ASSUMPTIONS = [
    "expected answers are exact rational sign decisions; inputs are the nearest doubles of exactly-unit rational vectors (perturbation <= 1e-16 << margin)",
    "coincident great circles, arcs of exactly 180 degrees and points within the margin are not generated (the statement excludes them)",
    "returned intersection points are compared with the exact point at 1e-9 rad (nearly coplanar family: plus the displacement that rounding the inputs to double can cause, 8 eps / (sin(arc) sin(tilt)) <= 1.5e-9); extreme latitudes with the closed form at 1e-9 rad",
]
BOUNDS = {
    "quick": "point_within_gca on 12 frames; intersections: all pairs of a 160-arc subset (12.7k pairs); extreme latitude on 12 frames; symmetry variants on every 5th case",
    "thorough": "point_within_gca on 20 frames; intersections: all pairs of a 480-arc subset (115k pairs); extreme latitude on 20 frames; symmetry variants on every case",
}
ROTS = [S.rat_angle(m) for m in (S.Fr(1, 7), S.Fr(5, 13), S.Fr(1), S.Fr(27, 11), S.Fr(-3, 11), S.Fr(-15, 11))]


def _f(p):
    return np.array(S.fl(p), dtype=float)


def _tags(a, b):
    t = []
    fa, fb = S.fl(a), S.fl(b)
    n = S.cross(a, b)
    if abs(float(n[2])) / S.norm_f(n) < 1e-12:
        t.append("through-pole")
    lo_a, lo_b = math.atan2(fa[1], fa[0]), math.atan2(fb[1], fb[0])
    if abs(lo_a - lo_b) > math.pi:
        t.append("antimeridian")
    if abs(fa[2]) < 1e-15 and abs(fb[2]) < 1e-15:
        t.append("equator")
    if max(abs(fa[2]), abs(fb[2])) > 0.999:
        t.append("near-pole")
    return t


def cases(tier):
    nf = 12 if tier == "quick" else 20
    out = [{"kind": "pwg", "frame": i, "tier": tier} for i in range(nf)]
    out += [{"kind": "ext", "frame": i, "tier": tier} for i in range(nf)]
    narcs = 160 if tier == "quick" else 480
    nb = 32
    for b in range(nb):
        out.append({"kind": "gg", "narcs": narcs, "block": b, "nblocks": nb, "tier": tier})
    # kilometre-scale arcs (0.03 .. 0.3 degrees) on local rational lattices
    for bi in range(len(SHORT_BASES)):
        for blk in range(4):
            out.append({"kind": "short", "base": bi, "block": blk, "nblocks": 4, "tier": tier})
    # pairs of great circles tilted against each other by 2e-3 .. 2e-6 rad (nearly coplanar, but distinct: the statement only excludes coincident circles)
    for fi in ((0, 4) if tier == "quick" else (0, 4, 6, 9, 11, 15)):  # circles that do not contain the polar axis (those are the known pole-branch findings)
        for N in TILT_N:
            out.append({"kind": "tilt", "frame": fi, "N": N, "tier": tier})
    return out


TILT_N = (1000, 100000, 1000000)


def _run_tilt(case, res):
    from uxarray.grid.intersections import gca_gca_intersection

    V = res["violations"]
    tier = case["tier"]
    u, v, w = S.frames()[case["frame"]]
    c, sn = S.rat_angle(S.Fr(1, case["N"]))  # rotation about u by 2*atan(1/N)
    v2 = S.add(S.scale(v, c), S.scale(w, sn))
    w2 = S.add(S.scale(v, -sn), S.scale(w, c))
    fr1, fr2 = (u, v, w), (u, v2, w2)
    tans = S.TANS[::3] if tier == "quick" else S.TANS[::2]
    A1, A2 = S.arcs_on(fr1, tans), S.arcs_on(fr2, tans)
    ncross = 0
    for i, (a, b) in enumerate(A1):
        for j, (cc, d) in enumerate(A2):
            crosses, x, m = S.crossing(a, b, cc, d)
            if crosses is None or m < MARGIN:
                continue
            ncross += int(crosses)
            tags = sorted(set(_tags(a, b) + _tags(cc, d)))
            for order in (0, 1):
                g1 = np.array([_f(a), _f(b)])
                g2 = np.array([_f(cc), _f(d)])
                if order:
                    g1, g2 = g2, g1
                res["evaluations"] += 1
                try:
                    out = np.asarray(gca_gca_intersection(g1, g2), dtype=float).reshape(-1, 3)
                    err = None
                except Exception as e:
                    out, err = np.zeros((0, 3)), type(e).__name__
                why = ""
                if err:
                    why = "raises:" + err
                elif crosses:
                    if len(out) != 1:
                        why = "missed-crossing" if len(out) == 0 else "extra-points"
                    else:
                        xf = np.array(S.fl(x))
                        xf /= np.linalg.norm(xf)
                        # conditioning: rounding the four endpoints to double (<= 1.1e-16 each) already turns each plane normal by up to
                        # 2 eps / sin(arc length) and hence the crossing by that over sin(tilt): the exact point is only defined to that accuracy
                        cond = 8 * 1.1e-16 / (math.sin(min(S.angle_f(a, b), S.angle_f(cc, d))) * math.sin(2.0 / case["N"]))
                        if math.atan2(np.linalg.norm(np.cross(out[0], xf)), float(np.dot(out[0], xf))) > 1e-9 + cond:
                            why = "wrong-point"
                elif len(out) != 0:
                    why = "false-intersection"
                if why:
                    V.append({"oracle": "gca_gca_intersection", "sig": "c14:gg:tilt%d:%s:%s" % (case["N"], why, "+".join(tags) or "generic"), "msg": "arcs %s->%s and %s->%s on great circles tilted by %.1e rad (order %d): returned %s; exact: %s (smallest decision margin %.2e rad)" % (S.fl(a), S.fl(b), S.fl(cc), S.fl(d), 2.0 / case["N"], order, out.tolist(), ("one crossing at %s" % (np.round(np.array(S.fl(x)) / S.norm_f(x), 12).tolist(),)) if crosses else "no crossing", m), "focus": {"kind": "replay1", "fn": "gg", "a": _rat(a), "b": _rat(b), "c": _rat(cc), "d": _rat(d), "order": order, "tier": tier}})
            res["transitions"] += 1
            key = digest(("tilt", case["frame"], case["N"], i, j))
            res["states"].append(key)
            if crosses:
                res["nontrivial"].append(key)
    res["outcomes"].append(digest(("tilt", case["frame"], case["N"], ncross, len(V))))
    res["axes"] = {"tilt_pairs": {"crossing": ncross, "disjoint": len(A1) * len(A2) - ncross}}
    res["sample"] = {"kind": "tilt", "frame": case["frame"], "N": case["N"], "crossing": ncross}
    return res


# local lattices in the stereographic plane (projection from the south pole: lines through the origin are meridians)
SHORT_BASES = [(S.Fr(3, 7), S.Fr(2, 5)), (S.Fr(1), S.Fr(0)), (S.Fr(-1), S.Fr(1, 900)), (S.Fr(1, 500), S.Fr(1, 700)), (S.Fr(-3, 5), S.Fr(-4, 5)), (S.Fr(0), S.Fr(5, 2))]
SHORT_H = S.Fr(1, 1500)


def _short_points(bi, n=4):
    s0, t0 = SHORT_BASES[bi]
    loc = [S.stereo(s0 + i * SHORT_H, t0 + j * SHORT_H + i * SHORT_H / 7) for i in range(n) for j in range(n)]
    rad = [S.stereo(s0 * (1 + k * SHORT_H), t0 * (1 + k * SHORT_H)) for k in range(6)]  # on one meridian
    return loc, rad


def _run_short(case, res):
    from uxarray.grid.arcs import extreme_gca_latitude, point_within_gca
    from uxarray.grid.intersections import gca_gca_intersection

    V = res["violations"]
    tier = case["tier"]
    loc, rad = _short_points(case["base"])
    pts = loc + rad[1:]
    arcs = [(pts[i], pts[j]) for i in range(len(pts)) for j in range(i + 1, len(pts))]
    pairs = [(i, j) for i in range(len(arcs)) for j in range(i + 1, len(arcs))][case["block"]:: case["nblocks"]]
    ncross = 0
    for pi, (i, j) in enumerate(pairs):
        (a, b), (c, d) = arcs[i], arcs[j]
        if len({a, b, c, d}) < 4:
            continue  # arcs sharing an endpoint: the crossing decision has no margin
        crosses, x, m = S.crossing(a, b, c, d)
        if crosses is None or m < MARGIN:
            continue
        if S.plane_distance(c, a, b) < MARGIN and S.plane_distance(d, a, b) < MARGIN:
            continue  # (nearly) the same great circle: excluded by the statement
        ncross += int(crosses)
        tags = sorted(set(_tags(a, b) + _tags(c, d)))
        for vname, T in _variants(tier, pi):
            for order in (0, 1):
                A = np.array([_f(T(a)), _f(T(b))])
                B = np.array([_f(T(c)), _f(T(d))])
                g1, g2 = (A, B) if order == 0 else (B, A)
                k1, k2 = g1.copy(), g2.copy()
                res["evaluations"] += 1
                try:
                    out = np.asarray(gca_gca_intersection(g1, g2), dtype=float).reshape(-1, 3)
                    err = None
                except Exception as e:
                    out, err = np.zeros((0, 3)), type(e).__name__
                why = ""
                if err:
                    why = "raises:" + err
                elif not (np.array_equal(g1, k1) and np.array_equal(g2, k2)):
                    why = "modifies-input"
                elif crosses:
                    if len(out) != 1:
                        why = "missed-crossing" if len(out) == 0 else "extra-points"
                    else:
                        xf = np.array(S.fl(T(x)))
                        xf /= np.linalg.norm(xf)
                        if math.atan2(np.linalg.norm(np.cross(out[0], xf)), float(np.dot(out[0], xf))) > 1e-9:
                            why = "wrong-point"
                elif len(out) != 0:
                    why = "false-intersection"
                if why:
                    V.append({"oracle": "gca_gca_intersection", "sig": "c14:gg:short:%s:%s" % (why, "+".join(tags) or "generic"), "msg": "short arcs %s->%s and %s->%s (lengths %.2e, %.2e rad; variant %s, order %d): returned %s; exact: %s (smallest decision margin %.2e rad)" % (S.fl(a), S.fl(b), S.fl(c), S.fl(d), S.angle_f(a, b), S.angle_f(c, d), vname, order, out.tolist(), ("one crossing at %s" % (np.round(np.array(S.fl(x)) / S.norm_f(x), 12).tolist(),)) if crosses else "no crossing", m), "focus": {"kind": "replay1", "fn": "gg", "a": _rat(T(a)), "b": _rat(T(b)), "c": _rat(T(c)), "d": _rat(T(d)), "order": order, "tier": tier, "short": True}})
        res["transitions"] += 1
        key = digest(("short-gg", case["base"], i, j))
        res["states"].append(key)
        if crosses:
            res["nontrivial"].append(key)
    # point_within_gca on very short generic arcs (0.006 degrees = 0.7 km): points of a ten times finer lattice next to the arc, 1e-6 .. 3e-4 rad
    # off its plane, are not on it (a plane test whose tolerance does not scale with the arc length would accept them)
    if case["block"] == 1:
        s0, t0 = SHORT_BASES[case["base"]]
        hh = SHORT_H / 13
        fine = [S.stereo(s0 + i * hh, t0 + j * hh + i * hh / 7) for i in range(4) for j in range(4)]
        for i, j in itertools.permutations(range(len(fine)), 2):
            a, b = fine[i], fine[j]
            if S.angle_f(a, b) > 2.5e-4:
                continue
            tags = _tags(a, b)
            qs = [(p, False, "off-circle") for k, p in enumerate(fine) if k not in (i, j) and S.plane_distance(p, a, b) >= MARGIN]
            g = np.array([_f(a), _f(b)])
            for p, want, where in qs:
                res["evaluations"] += 1
                try:
                    got = bool(point_within_gca(_f(p), g))
                except Exception as e:
                    got = "raises:%s" % type(e).__name__
                if got != want:
                    V.append({"oracle": "point_within_gca", "sig": "c14:pwg:short:%s:%s:%s" % (where, "false-positive" if got is True else got, "+".join(tags) or "generic"), "msg": "short arc %s -> %s (%.2e rad), point %s at %.2e rad from its plane: returned %s, exact answer False" % (S.fl(a), S.fl(b), S.angle_f(a, b), S.fl(p), S.plane_distance(p, a, b), got), "focus": {"kind": "replay1", "fn": "pwg", "a": _rat(a), "b": _rat(b), "p": _rat(p), "want": False, "tier": tier, "short": True}})
            res["transitions"] += 1
    # point_within_gca on short meridian arcs (radial lattice line), every block does its share of the rotations
    if case["block"] == 0:
        for i, j in itertools.permutations(range(len(rad)), 2):
            a, b = rad[i], rad[j]
            if abs(i - j) < 2:
                continue
            tags = _tags(a, b)
            qs = [(p, S.arc_margin(p, a, b) > 0, "on-circle") for k, p in enumerate(rad) if k not in (i, j) and abs(S.arc_margin(p, a, b)) >= MARGIN]
            qs += [(p, False, "off-circle") for p in loc if S.plane_distance(p, a, b) >= MARGIN]
            for vname, T in _variants("thorough", 0):
                g = np.array([_f(T(a)), _f(T(b))])
                for p, want, where in qs:
                    res["evaluations"] += 1
                    try:
                        got = bool(point_within_gca(_f(T(p)), g))
                    except Exception as e:
                        got = "raises:%s" % type(e).__name__
                    if got != want:
                        V.append({"oracle": "point_within_gca", "sig": "c14:pwg:short:%s:%s:%s" % (where, "false-negative" if want else ("false-positive" if got is True else got), "+".join(tags) or "generic"), "msg": "short arc %s -> %s (%.2e rad), %s point %s (variant %s): returned %s, exact answer %s" % (S.fl(T(a)), S.fl(T(b)), S.angle_f(a, b), where, S.fl(T(p)), vname, got, want), "focus": {"kind": "replay1", "fn": "pwg", "a": _rat(T(a)), "b": _rat(T(b)), "p": _rat(T(p)), "want": want, "tier": tier, "short": True}})
            res["transitions"] += 1
    res["outcomes"].append(digest(("short", case["base"], case["block"], ncross, len(V))))
    res["axes"] = {"short_pairs": {"crossing": ncross, "disjoint": len(pairs) - ncross}}
    res["sample"] = {"kind": "short", "base": case["base"], "pairs": len(pairs), "crossing": ncross}
    return res


def interp_cases(tier):
    """interpreted pass (NUMBA_DISABLE_JIT=1) on circles that do not contain the polar axis (those carry the known pole-branch findings)"""
    return [{"kind": "pwg", "frame": 4, "tier": "quick", "cap": 8}, {"kind": "ext", "frame": 6, "tier": "quick", "cap": 12}, {"kind": "tilt", "frame": 4, "N": 1000, "tier": "quick"}]


def selftest_case(tier):
    return {"kind": "pwg", "frame": 3, "tier": "quick"}


def warmup(tier):
    run_case({"kind": "pwg", "frame": 0, "tier": "quick", "cap": 3})
    run_case({"kind": "gg", "narcs": 12, "block": 0, "nblocks": 1, "tier": "quick"})
    run_case({"kind": "ext", "frame": 1, "tier": "quick", "cap": 3})


def _new():
    return {"violations": [], "evaluations": 0, "transitions": 0, "nontrivial": [], "outcomes": [], "axes": {}, "states": []}


def _rat(p):
    return [[int(c.numerator), int(c.denominator)] for c in p]


def _unrat(r):
    return tuple(S.Fr(n, d) for n, d in r)


def _variants(tier, idx):
    """(name, transform on points) symmetry variants applied to a case"""
    v = [("id", lambda p: p)]
    if tier == "thorough" or idx % 5 == 0:
        for k, cs in enumerate(ROTS):
            v.append(("rotz%d" % k, S.rot_z(cs)))
    return v


def run_case(case):
    from uxarray.grid.arcs import extreme_gca_latitude, point_within_gca
    from uxarray.grid.intersections import gca_gca_intersection

    res = _new()
    V = res["violations"]
    tier = case["tier"]
    tagc = {}
    if case["kind"] == "replay1":
        return _replay1(case, res)
    if case["kind"] == "short":
        return _run_short(case, res)
    if case["kind"] == "tilt":
        return _run_tilt(case, res)
    if case["kind"] == "pwg":
        fr = S.frames()[case["frame"]]
        arcs = S.arcs_on(fr)
        if "cap" in case:
            arcs = arcs[: case["cap"]]
        oncirc = S.circle_points(fr)
        off = S.lattice_points()
        for ai, (a, b) in enumerate(arcs):
            tags = _tags(a, b)
            for t in tags:
                tagc[t] = tagc.get(t, 0) + 1
            qs = []
            for p in oncirc:
                m = S.arc_margin(p, a, b)
                if abs(m) >= MARGIN:
                    qs.append((p, m > 0, "on-circle"))
            if ai % 4 == 0 or tier == "thorough":
                for p in off:
                    if S.plane_distance(p, a, b) >= MARGIN:
                        qs.append((p, False, "off-circle"))
            for vname, T in _variants(tier, ai):
                for swap in (False, True):
                    aa, bb = (T(b), T(a)) if swap else (T(a), T(b))
                    g = np.array([_f(aa), _f(bb)])
                    for p, want, where in qs:
                        res["evaluations"] += 1
                        try:
                            got = bool(point_within_gca(_f(T(p)), g))
                        except Exception as e:
                            got = "raises:%s" % type(e).__name__
                        if got != want:
                            V.append({"oracle": "point_within_gca", "sig": "c14:pwg:%s:%s:%s" % (where, "false-negative" if want else ("false-positive" if got is True else got), "+".join(tags) or "generic"), "msg": "arc %s -> %s, %s point %s (variant %s%s): point_within_gca = %s, exact answer %s (margin %.2e rad)" % (S.fl(aa), S.fl(bb), where, S.fl(T(p)), vname, ",swapped" if swap else "", got, want, abs(S.arc_margin(p, a, b)) if where == "on-circle" else S.plane_distance(p, a, b)), "focus": {"kind": "replay1", "fn": "pwg", "a": _rat(aa), "b": _rat(bb), "p": _rat(T(p)), "want": want, "tier": tier}})
            res["transitions"] += 1
            key = digest(("pwg", case["frame"], ai))
            res["states"].append(key)
            if tags:
                res["nontrivial"].append(key)
        res["outcomes"].append(digest(("pwg", case["frame"], len(V))))
        res["axes"] = {"pwg_frame": {str(case["frame"]): res["evaluations"]}, "arc_tags": tagc}
        res["sample"] = {"kind": "pwg", "frame": case["frame"], "arcs": len(arcs), "on_circle": len(oncirc), "off_circle": len(off)}
        return res
    if case["kind"] == "ext":
        fr = S.frames()[case["frame"]]
        arcs = S.arcs_on(fr)
        if "cap" in case:
            arcs = arcs[: case["cap"]]
        for ai, (a, b) in enumerate(arcs):
            tags = _tags(a, b)
            wants = {kind: S.extreme_lat(a, b, kind) for kind in ("max", "min")}
            for vname, T in _variants(tier, ai):
                for swap in (False, True):
                    aa, bb = (T(b), T(a)) if swap else (T(a), T(b))
                    # ONE caller-owned array for the whole sequence max, min, max (callers reuse their arc arrays)
                    arr = np.array([_f(aa), _f(bb)])
                    keep = arr.copy()
                    for step, kind in enumerate(("max", "min", "max")):
                        want, m = wants[kind]
                        if m < MARGIN:
                            continue
                        res["evaluations"] += 1
                        try:
                            got = float(extreme_gca_latitude(arr, kind))
                        except Exception as e:
                            got = float("nan")
                        if not np.array_equal(arr, keep):
                            V.append({"oracle": "extreme_gca_latitude", "sig": "c14:ext:modifies-input", "msg": "arc %s -> %s (variant %s%s): extreme_gca_latitude(%s) overwrote the caller's arc array: %s -> %s" % (S.fl(a), S.fl(b), vname, ", endpoints swapped" if swap else "", kind, keep.tolist(), arr.tolist()), "focus": {"kind": "replay1", "fn": "ext", "a": _rat(aa), "b": _rat(bb), "ext": kind, "tier": tier}})
                            arr = keep.copy()
                            break
                        if not abs(got - want) <= 1e-9:
                            interior = abs(want) > max(abs(math.asin(float(a[2]))), abs(math.asin(float(b[2])))) + 1e-12
                            V.append({"oracle": "extreme_gca_latitude", "sig": "c14:ext:%s:%s:%s%s" % (kind, "interior-extremum" if interior else "endpoint-extremum", "+".join(tags) or "generic", ":after-earlier-call" if step else ""), "msg": "arc %s -> %s (variant %s%s, call %d on the same array): extreme_gca_latitude(%s) = %r, exact %r" % (S.fl(a), S.fl(b), vname, ", endpoints swapped" if swap else "", step, kind, got, want), "focus": {"kind": "replay1", "fn": "ext", "a": _rat(aa), "b": _rat(bb), "ext": kind, "tier": tier}})
                            break
            res["transitions"] += 1
            key = digest(("ext", case["frame"], ai))
            res["states"].append(key)
            if tags:
                res["nontrivial"].append(key)
        res["outcomes"].append(digest(("ext", case["frame"], len(V))))
        res["axes"] = {"ext_frame": {str(case["frame"]): res["evaluations"]}}
        res["sample"] = {"kind": "ext", "frame": case["frame"], "arcs": len(arcs)}
        return res
    # ---- gca_gca_intersection: all unordered pairs of an arc subset closed under endpoint swap
    arcs = _arc_subset(case["narcs"])
    pairs = [(i, j) for i in range(len(arcs)) for j in range(i + 1, len(arcs))]
    pairs = pairs[case["block"]:: case["nblocks"]]
    ncross = 0
    for pi, (i, j) in enumerate(pairs):
        (a, b, fi), (c, d, fj) = arcs[i], arcs[j]
        if fi == fj:
            continue
        crosses, x, m = S.crossing(a, b, c, d)
        if crosses is None or m < MARGIN:
            continue
        ncross += int(crosses)
        tags = sorted(set(_tags(a, b) + _tags(c, d)))
        for vname, T in _variants(tier, pi):
            for order in (0, 1):
                A = np.array([_f(T(a)), _f(T(b))])
                B = np.array([_f(T(c)), _f(T(d))])
                g1, g2 = (A, B) if order == 0 else (B, A)
                res["evaluations"] += 1
                try:
                    out = np.asarray(gca_gca_intersection(g1, g2), dtype=float).reshape(-1, 3)
                    err = None
                except Exception as e:
                    out, err = np.zeros((0, 3)), type(e).__name__
                ok = True
                why = ""
                if err:
                    ok, why = False, "raises:" + err
                elif crosses:
                    if len(out) != 1:
                        ok, why = False, "missed-crossing" if len(out) == 0 else "extra-points"
                    else:
                        xf = np.array(S.fl(T(x)))
                        xf /= np.linalg.norm(xf)
                        ang = math.atan2(np.linalg.norm(np.cross(out[0], xf)), float(np.dot(out[0], xf)))
                        if ang > 1e-9:
                            ok, why = False, "wrong-point"
                else:
                    if len(out) != 0:
                        ok, why = False, "false-intersection"
                if not ok:
                    V.append({"oracle": "gca_gca_intersection", "sig": "c14:gg:%s:%s" % (why, "+".join(tags) or "generic"), "msg": "arcs %s->%s and %s->%s (variant %s, order %d): returned %s; exact: %s (smallest decision margin %.2e rad)" % (S.fl(T(a)), S.fl(T(b)), S.fl(T(c)), S.fl(T(d)), vname, order, out.tolist(), ("one crossing at %s" % (np.round(np.array(S.fl(T(x))) / S.norm_f(x), 12).tolist(),)) if crosses else "disjoint", m), "focus": {"kind": "replay1", "fn": "gg", "a": _rat(T(a)), "b": _rat(T(b)), "c": _rat(T(c)), "d": _rat(T(d)), "order": order, "tier": tier}})
        res["transitions"] += 1
        key = digest(("gg", i, j, case["narcs"]))
        res["states"].append(key)
        if crosses:
            res["nontrivial"].append(key)
    res["outcomes"].append(digest(("gg", case["block"], ncross, len(V))))
    res["axes"] = {"gg_pairs": {"crossing": ncross, "disjoint": len(pairs) - ncross}}
    res["sample"] = {"kind": "gg", "block": case["block"], "pairs": len(pairs), "crossing": ncross}
    return res


_ARCS = {}


def _arc_subset(n):
    if n not in _ARCS:
        frs = S.frames()
        allarcs = []
        for fi, fr in enumerate(frs):
            for (a, b) in S.arcs_on(fr, S.TANS[::2] + S.TANS[1:8:3]):
                allarcs.append((a, b, fi))
        # deterministic spread, closed under endpoint swap
        step = max(1, len(allarcs) // (n // 2))
        base = allarcs[::step][: n // 2]
        _ARCS[n] = base + [(b, a, fi) for (a, b, fi) in base]
    return _ARCS[n]


def _replay1(case, res):
    from uxarray.grid.arcs import extreme_gca_latitude, point_within_gca
    from uxarray.grid.intersections import gca_gca_intersection

    V = res["violations"]
    a, b = _unrat(case["a"]), _unrat(case["b"])
    res["evaluations"] = res["transitions"] = 1
    res["states"] = res["nontrivial"] = ["replay", "replay2"]
    if case["fn"] == "pwg":
        p = _unrat(case["p"])
        got = bool(point_within_gca(_f(p), np.array([_f(a), _f(b)])))
        want = S.on_minor_arc(p, a, b) if S.dot(S.cross(a, b), p) == 0 else False
        if got != want:
            V.append({"oracle": "point_within_gca", "sig": "c14:pwg:replay", "msg": "got %s, exact %s" % (got, want), "focus": case})
    elif case["fn"] == "ext":
        want, m = S.extreme_lat(a, b, case["ext"])
        arr = np.array([_f(a), _f(b)])
        keep = arr.copy()
        got = float(extreme_gca_latitude(arr, case["ext"]))
        if not np.array_equal(arr, keep):
            V.append({"oracle": "extreme_gca_latitude", "sig": "c14:ext:replay", "msg": "the caller's arc array was overwritten: %s -> %s" % (keep.tolist(), arr.tolist()), "focus": case})
        elif not abs(got - want) <= 1e-9:
            V.append({"oracle": "extreme_gca_latitude", "sig": "c14:ext:replay", "msg": "got %r, exact %r" % (got, want), "focus": case})
    else:
        c, d = _unrat(case["c"]), _unrat(case["d"])
        crosses, x, m = S.crossing(a, b, c, d)
        A, B = np.array([_f(a), _f(b)]), np.array([_f(c), _f(d)])
        out = np.asarray(gca_gca_intersection(*((A, B) if case["order"] == 0 else (B, A))), dtype=float).reshape(-1, 3)
        if (len(out) == 1) != bool(crosses) or len(out) > 1:
            V.append({"oracle": "gca_gca_intersection", "sig": "c14:gg:replay", "msg": "returned %s, exact crossing=%s" % (out.tolist(), crosses), "focus": case})
    return res


def run(ctx):
    ctx.map(run_case, cases(ctx.tier))
