"""C06 -- Integration is the area-weighted sum over faces.

Explorer I: grids x data alphabet x leading dims x dtype x every supported
(rule, order) x placement of the element dimension, against sum(value*area)
with areas taken from a *fresh* grid's compute_face_areas(rule, order).
"""

import itertools

import numpy as np

from vf.alpha import build, meshes
from vf.core import pool
from vf.core.state import digest

ID = "C06"
RULE = (
    "grids (incl. tetrahedron n_face=n_node, single triangle n_node=n_edge, mixed sizes) x face data {every unit impulse, identity, "
    "ones, generic, int, bool, float32} x leading dims {(), (2), (2,3), (1,2,2)} x (rule, order) in {triangular 1,4,8,10,12; gaussian 1..10} "
    "in forward and reverse call order on one grid object, from the fresh grid and after each of 6 prior operations that fill the default-area cache (face_areas, face_jacobian, validate, to_xarray(scrip), areas(gaussian,2)+face_areas, integrate(order=8)); linearity on all pairs of {identity, generic, impulse0} with coefficient pairs "
    "{(1,1),(1,-2),(0.5,3)}; node- and edge-dimensioned arrays of every rank must raise. non-trivial = grid with >= 2 faces of different area "
    "and non-constant data; distinct = (mesh, data, lead, rule, order)"
)
ASSUMPTIONS = [
    "areas themselves are C05's job: the reference weights are Grid.compute_face_areas(rule, order) of a freshly built grid",
    "face dimension is the last dimension (the statement speaks of leading dimensions)",
]
BOUNDS = {
    "quick": "7 meshes; all 15 (rule, order) pairs on identity/generic/ones rank<=1, default rule on the whole data x rank alphabet",
    "thorough": "11 meshes; all 15 (rule, order) pairs on the whole data x rank alphabet; all 30 ordered pairs of prior operations and all (rule, order) call sequences of length 2 (3 on the mixed patch: 3375) on 3 meshes",
}
RULES = [("triangular", o) for o in (4, 1, 8, 10, 12)] + [("gaussian", o) for o in (4, 1, 2, 3, 5, 6, 7, 8, 9, 10)]
QUICK = ["tetra", "single3", "mixedpatch", "pyr5", "prism", "cube", "sizes38"]
THOROUGH = QUICK + ["icosa", "cs2", "amstrip", "polecap"]
LEADS = [(), (2,), (2, 3), (1, 2, 2)]
# operations performed on the grid object before the (rule, order) sequence: each one fills the default-area cache
PRE = {
    "face_areas": lambda g: g.face_areas,
    "face_jacobian": lambda g: g.face_jacobian,
    "validate": lambda g: _quiet(g.validate),
    "to_xarray(scrip)": lambda g: _try(lambda: g.to_xarray("scrip")),
    "areas(gaussian,2)+face_areas": lambda g: (g.compute_face_areas("gaussian", 2), g.face_areas),
    "integrate(order=8)": lambda g: build.uxda(g, np.ones(g.n_face), "n_face").integrate("triangular", 8),
}


def _quiet(f):
    import contextlib
    import io

    with contextlib.redirect_stdout(io.StringIO()):
        try:
            return f()
        except Exception:
            return None


def _try(f):
    try:
        return f()
    except Exception:
        return None


def cases(tier):
    out = []
    for name in QUICK if tier == "quick" else THOROUGH:
        for rev in (False, True):
            out.append({"kind": "int", "mesh": name, "rev": rev, "tier": tier})
            for pre in PRE:
                out.append({"kind": "int", "mesh": name, "rev": rev, "tier": tier, "pre": pre})
        out.append({"kind": "lin", "mesh": name})
        out.append({"kind": "reject", "mesh": name})
    if tier == "thorough":
        # every ordered pair of cache-filling prior operations, and every ordered pair/triple of (rule, order) calls on one fresh grid
        for name in ("mixedpatch", "tetra", "sizes38"):
            for a in PRE:
                for b in PRE:
                    if a != b:
                        out.append({"kind": "int", "mesh": name, "rev": False, "tier": tier, "pre": a + " ; " + b})
            for first in range(len(RULES)):
                out.append({"kind": "seq", "mesh": name, "first": first, "depth": 3 if name == "mixedpatch" else 2})
    return out


def interp_cases(tier):
    """interpreted pass (NUMBA_DISABLE_JIT=1)"""
    return [{"kind": "int", "mesh": "mixedpatch", "rev": False, "tier": "quick"}, {"kind": "int", "mesh": "tetra", "rev": True, "tier": "quick", "pre": "face_areas"}]


def selftest_case(tier):
    return {"kind": "int", "mesh": "mixedpatch", "rev": False, "tier": "quick"}


def warmup(tier):
    run_case({"kind": "int", "mesh": "single3", "rev": False, "tier": "quick"})
    run_case({"kind": "reject", "mesh": "single3"})


def _new():
    return {"violations": [], "evaluations": 0, "transitions": 0, "nontrivial": [], "outcomes": [], "axes": {}, "states": []}


def _seq(case, m, res):
    """every sequence of `depth` integrate calls with (rule, order) arguments on ONE fresh grid: each result is the sum weighted with its own rule's areas"""
    import itertools

    V = res["violations"]
    data = build.data_alphabet(m.n_face, ("generic",))[0][1]
    ref = {}
    for ri, (rule, order) in enumerate(RULES):
        pool.fresh()
        try:
            ref[ri] = float(np.dot(data, _areas(m, rule, order)))
        except Exception:
            pass  # reported when the sequence reaches it
    for rest in itertools.product(range(len(RULES)), repeat=case["depth"] - 1):
        seq = (case["first"],) + rest
        if "only" in case and list(seq) != case["only"]["seq"]:
            continue
        focus = dict(case, only={"seq": list(seq)})
        pool.fresh()
        g = build.grid(m)
        da = build.uxda(g, data.copy(), "n_face", name="psi")
        res["evaluations"] += 1
        key = digest((case["mesh"], seq))
        res["states"].append(key)
        if len(set(seq)) > 1:
            res["nontrivial"].append(key)
        for step, ri in enumerate(seq):
            rule, order = RULES[ri]
            res["transitions"] += 1
            if ri not in ref:
                try:
                    ref[ri] = float(np.dot(data, _areas(m, rule, order)))
                except Exception as e:
                    V.append({"oracle": "seq", "sig": "c06:areas-raise:%s" % type(e).__name__, "msg": "compute_face_areas(%s,%s) raised %r" % (rule, order, e), "focus": focus})
                    break
            try:
                v = float(da.integrate(quadrature_rule=rule, order=order).values)
            except Exception as e:
                V.append({"oracle": "seq", "sig": "c06:seq:raises:%s" % type(e).__name__, "msg": "call %d of %s raised %r" % (step, [RULES[i] for i in seq], e), "focus": focus})
                break
            if abs(v - ref[ri]) > 1e-12 * max(1.0, abs(ref[ri])):
                V.append({"oracle": "seq", "sig": "c06:seq:value:%s" % ("first-call" if step == 0 else "after-other-rule"), "msg": "grid %s, calls %s: call %d returned %r, area-weighted sum with its own rule = %r" % (case["mesh"], [RULES[i] for i in seq], step, v, ref[ri]), "focus": focus})
                break
        res["outcomes"].append(digest(seq[-1]))
    res["axes"] = {"call_sequence_depth": {str(case["depth"]): res["evaluations"]}}
    res["sample"] = {"mesh": case["mesh"], "kind": "seq", "first": list(RULES[case["first"]])}
    return res


def _areas(mesh, rule, order):
    g = build.grid(mesh)
    a, _ = g.compute_face_areas(rule, order)
    return np.array(a, dtype=float)


def run_case(case):
    res = _new()
    m = meshes.get(case["mesh"])
    if case["kind"] == "lin":
        return _lin(case, m, res)
    if case["kind"] == "reject":
        return _reject(case, m, res)
    if case["kind"] == "seq":
        return _seq(case, m, res)
    import uxarray as ux

    V = res["violations"]
    tier = case["tier"]
    rules = list(reversed(RULES)) if case["rev"] else RULES
    # reference weights first, in their own executions (a reference computed between the calls under test could mask or trigger
    # state shared through the module)
    ref_area, ref_err = {}, {}
    for rule, order in RULES:
        pool.fresh()
        try:
            ref_area[(rule, order)] = _areas(m, rule, order)
        except Exception as e:
            ref_err[(rule, order)] = e
    pool.fresh()
    g = build.grid(m)  # one grid object for the whole (rule, order) sequence
    pre = case.get("pre")
    if pre:
        for p1 in pre.split(" ; "):
            PRE[p1](g)
    datas = build.data_alphabet(m.n_face, ("identity", "generic", "ones", "int", "bool", "f32", "impulses"))
    for rule, order in rules:
        try:
            if (rule, order) in ref_err:
                raise ref_err[(rule, order)]
            A = ref_area[(rule, order)]
        except Exception as e:
            # the weights themselves cannot be computed for a rule/order the statement quantifies over: integrate() cannot be right either
            V.append({"oracle": "integrate", "sig": "c06:areas-raise:%s" % type(e).__name__, "msg": "compute_face_areas(%s,%s) on a fresh %s grid raised %r" % (rule, order, case["mesh"], e), "focus": dict(case, only={"rule": rule, "order": order, "data": "identity", "lead": []})})
            continue
        default = (rule, order) == ("triangular", 4)
        for dname, dbase in datas:
            simple = dname in ("identity", "generic", "ones")
            for lead in LEADS:
                if tier == "quick" and not default and not (simple and len(lead) <= 1):
                    continue
                if pre and not (dname in ("identity", "ones") and len(lead) <= 1):
                    continue
                if dname.startswith("impulse") and (lead or not default) and tier == "quick":
                    continue
                foc = {"rule": rule, "order": order, "data": dname, "lead": list(lead)}
                if "only" in case and foc != case["only"]:
                    continue
                focus = dict(case, only=foc)
                data = build.lead_expand(dbase, lead)
                da = build.uxda(g, data, "n_face", lead, name="psi")
                res["evaluations"] += 1
                res["transitions"] += 1
                key = digest((case["mesh"], dname, list(lead), rule, order, pre))
                res["states"].append(key)
                if m.n_face > 1 and dname != "ones":
                    res["nontrivial"].append(key)
                try:
                    out = da.integrate(quadrature_rule=rule, order=order)
                except Exception as e:
                    V.append({"oracle": "integrate", "sig": "c06:raises:%s" % type(e).__name__, "msg": "integrate(%s,%s) on %s%s raised %r" % (rule, order, dname, lead, e), "focus": focus})
                    continue
                ref = np.tensordot(data.astype(float), A, axes=([-1], [0]))
                if not isinstance(out, ux.UxDataArray):
                    V.append({"oracle": "type", "sig": "c06:type", "msg": "result is %s" % type(out).__name__, "focus": focus})
                    continue
                want = tuple("d%d" % i for i in range(len(lead)))
                if tuple(out.dims) != want:
                    V.append({"oracle": "dims", "sig": "c06:dims", "msg": "dims %s expected %s" % (out.dims, want), "focus": focus})
                if out.name != "psi":
                    V.append({"oracle": "name", "sig": "c06:name", "msg": "name %r" % (out.name,), "focus": focus})
                if out.uxgrid is not g:
                    V.append({"oracle": "grid", "sig": "c06:grid", "msg": "result not attached to the source grid", "focus": focus})
                v = np.asarray(out.values, dtype=float)
                if v.shape != ref.shape:
                    V.append({"oracle": "value", "sig": "c06:shape", "msg": "shape %s expected %s" % (v.shape, ref.shape), "focus": focus})
                    continue
                tol = (1e-5 if dname == "f32" else 1e-12) * max(1.0, float(np.max(np.abs(ref))) if ref.size else 1.0)
                if not np.all(np.abs(v - ref) <= tol):
                    V.append({"oracle": "value", "sig": "c06:value:%s" % ("default" if default else "nondefault"), "msg": "%sintegrate(%s,%s) of %s%s = %r, area-weighted sum = %r" % (("after %s: " % pre) if pre else "", rule, order, dname, lead, v.tolist(), ref.tolist()), "focus": focus})
                if dname == "ones" and not lead:
                    tot = float(build.grid(m).calculate_total_face_area(rule, order))
                    if abs(float(v) - tot) > 1e-12 * max(1.0, tot):
                        V.append({"oracle": "ones", "sig": "c06:ones-total", "msg": "integral of 1 = %r, total area = %r" % (float(v), tot), "focus": focus})
                res["outcomes"].append(digest(np.round(v, 9)))
    res["axes"] = {"mesh": {case["mesh"]: res["evaluations"]}, "rule_order": {"%s%d" % r: 1 for r in rules}, "prior_history": {str(pre): res["evaluations"]}}
    res["sample"] = {"mesh": case["mesh"], "rev": case["rev"]}
    return res


def _lin(case, m, res):
    V = res["violations"]
    g = build.grid(m)
    fields = dict(build.data_alphabet(m.n_face, ("identity", "generic")))
    e0 = np.zeros(m.n_face)
    e0[0] = 1.0
    fields["impulse0"] = e0
    for (na, a), (nb, b) in itertools.combinations(sorted(fields.items()), 2):
        for ca, cb in ((1.0, 1.0), (1.0, -2.0), (0.5, 3.0)):
            for lead in LEADS[:3]:
                for rule, order in (("triangular", 4), ("gaussian", 3)):
                    foc = {"a": na, "b": nb, "ca": ca, "cb": cb, "lead": list(lead), "rule": rule, "order": order}
                    if "only" in case and foc != case["only"]:
                        continue
                    focus = dict(case, only=foc)
                    A, B = build.lead_expand(a, lead), build.lead_expand(b, lead)
                    try:
                        ia = build.uxda(g, A, "n_face", lead).integrate(rule, order).values
                        ib = build.uxda(g, B, "n_face", lead).integrate(rule, order).values
                        ic = build.uxda(g, ca * A + cb * B, "n_face", lead).integrate(rule, order).values
                    except Exception as e:
                        V.append({"oracle": "linear", "sig": "c06:lin:raises:%s" % type(e).__name__, "msg": repr(e), "focus": focus})
                        continue
                    res["evaluations"] += 1
                    res["transitions"] += 3
                    key = digest((case["mesh"], "lin", na, nb, ca, cb, list(lead), rule))
                    res["states"].append(key)
                    res["nontrivial"].append(key)
                    want = ca * np.asarray(ia) + cb * np.asarray(ib)
                    if not np.allclose(ic, want, rtol=0, atol=1e-11 * max(1.0, float(np.max(np.abs(want))))):
                        V.append({"oracle": "linear", "sig": "c06:nonlinear", "msg": "I(%g*%s+%g*%s)=%r but %r" % (ca, na, cb, nb, np.asarray(ic).tolist(), want.tolist()), "focus": focus})
                    res["outcomes"].append(digest(np.round(np.asarray(ic, dtype=float), 9)))
    res["axes"] = {"linearity_on": {case["mesh"]: res["evaluations"]}}
    res["sample"] = {"mesh": case["mesh"], "kind": "lin"}
    return res


def _reject(case, m, res):
    V = res["violations"]
    g = build.grid(m)
    n = {"n_node": m.n_node, "n_edge": int(g.n_edge)}
    for elem in ("n_node", "n_edge"):
        for lead in LEADS:
            for dname, dbase in build.data_alphabet(n[elem], ("generic", "ones", "int")):
                for rule, order in (("triangular", 4), ("gaussian", 2)):
                    foc = {"elem": elem, "lead": list(lead), "data": dname, "rule": rule}
                    if "only" in case and foc != case["only"]:
                        continue
                    focus = dict(case, only=foc)
                    da = build.uxda(g, build.lead_expand(dbase, lead), elem, lead)
                    res["evaluations"] += 1
                    res["transitions"] += 1
                    key = digest((case["mesh"], "reject", elem, list(lead), dname, rule))
                    res["states"].append(key)
                    res["nontrivial"].append(key)
                    try:
                        out = da.integrate(rule, order)
                    except Exception as e:
                        res["outcomes"].append("raises:" + type(e).__name__)
                        continue
                    coincide = n[elem] == m.n_face
                    V.append({"oracle": "reject", "sig": "c06:not-rejected:%s:%s" % (elem, "size-coincides" if coincide else "other"), "msg": "integrate() of %s-dimensioned data (n=%d, n_face=%d) returned %r instead of raising" % (elem, n[elem], m.n_face, np.asarray(out.values).tolist()), "focus": focus})
    res["axes"] = {"reject_on": {case["mesh"]: res["evaluations"]}}
    res["sample"] = {"mesh": case["mesh"], "kind": "reject"}
    return res


def run(ctx):
    ctx.map(run_case, cases(ctx.tier))
