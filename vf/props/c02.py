"""C02 -- Derived edges are exactly the boundary segments of the faces.

Explorer I, complete scope: (a) every face-node table over a tiny node set,
(b) catalogue meshes and all their face subsets under index deviations,
(c) every first-access order of the five public observables.
"""

import itertools

import numpy as np

from vf.alpha import meshes
from vf.core.state import digest
from vf.oracle import conn

ID = "C02"
PROP = "c02"
RULE = (
    "(a) every table of n_face rows, each row any sequence of 3..W distinct nodes out of n_node (all rotations, both "
    "orientations, all padding layouts), at exact width and padded width; (b) catalogue meshes + every non-empty face "
    "subset (<= 8 faces) under node relabelling / face order / start corner deviations <= k, the input table given C-ordered, Fortran-ordered, as a strided view and read-only; (b2) every non-empty face subset obtained as a sub-grid through Grid.isel (parent plain, with derived edges, with a source-supplied edge table in its own numbering); (c) all 5! first-access "
    "orders of {n_edge, edge_node_connectivity, face_edge_connectivity, n_nodes_per_face, n_max_face_edges}. "
    "non-trivial = table with >= 2 faces sharing a node, or mixed sizes, or padding present; distinct = table content"
)
ASSUMPTIONS = [
    "grids are built with Grid.from_topology from standard-form tables (C01 owns decoding)",
    "oracle is a set model over node-index pairs written in the harness",
]
BOUNDS_NOTE = "plus an interpreted pass (NUMBA_DISABLE_JIT=1, spawned interpreters) over catalogue meshes and the subsets of one (quick) / four (thorough) of them"
BOUNDS = {
    "quick": "(a) n_node<=5,n_face<=2,sizes 3..5, widths {exact, 6}; n_node<=4,n_face=3 at exact width; (b) 21 meshes, deviations<=1, all subsets of meshes with <=7 faces; (c) 120 orders x 4 meshes",
    "thorough": "(a) as quick plus n_node=6,n_face=2,sizes 3..6 and n_node<=4,n_face=3 at widths {exact,5}; (b) deviations<=2 on meshes <= 9 faces, all subsets of meshes with <=9 faces; (c) 120 orders x 8 meshes",
}

LON = np.array([0.0, 10.0, 20.0, 5.0, 15.0, 25.0, 12.0])
LAT = np.array([0.0, 1.0, 0.0, 10.0, 11.0, 9.0, 20.0])
FILL = meshes.INT_FILL
OBS = ["n_edge", "edge_node_connectivity", "face_edge_connectivity", "n_nodes_per_face", "n_max_face_edges"]


LAYOUTS = ["C", "F", "strided", "readonly"]


def mkgrid(faces, width, n_node, lon=LON, lat=LAT, layout="C"):
    import uxarray as ux

    t = np.full((len(faces), width), FILL, dtype=np.intp)
    for i, f in enumerate(faces):
        t[i, : len(f)] = f
    if layout == "F":
        t = np.asfortranarray(t)
    elif layout == "strided":
        big = np.full((2 * len(faces), 2 * width), 7, dtype=np.intp)
        big[::2, ::2] = t
        t = big[::2, ::2]
    elif layout == "readonly":
        t.setflags(write=False)
    return ux.Grid.from_topology(lon[:n_node].copy(), lat[:n_node].copy(), t, fill_value=FILL)


def scope_blocks(n_node, n_face, sizes, widths, nblocks=32):
    rows = conn.all_rows(n_node, sizes)
    step = max(1, (len(rows) + nblocks - 1) // nblocks)
    for w in widths:
        for i0 in range(0, len(rows), step):
            yield {"kind": "scope", "n_node": n_node, "n_face": n_face, "sizes": list(sizes), "width": w, "block": [i0, min(len(rows), i0 + step)]}


def cases(tier):
    out = []
    out += scope_blocks(5, 1, (3, 4, 5), (5, 6), 1)
    out += scope_blocks(5, 2, (3, 4, 5), (5, 6), 48)
    out += scope_blocks(4, 3, (3, 4), (4,), 48)
    if tier == "thorough":
        out += scope_blocks(6, 2, (3, 4, 5, 6), (6,), 96)
        out += scope_blocks(4, 3, (3, 4), (5,), 48)
    cat = meshes.catalog()
    k = 1 if tier == "quick" else 2
    for name, m in cat.items():
        kk = k if m.n_face <= 9 else 1
        out.append({"kind": "mesh", "mesh": name, "k": kk})
        if m.n_face <= (7 if tier == "quick" else 9) and m.n_face > 1:
            out.append({"kind": "subsets", "mesh": name})
    for name in (["cube", "cubesplit", "pyr4", "mixedpatch"] if tier == "quick" else ["cube", "cubesplit", "pyr4", "mixedpatch", "prism", "tetra", "pyr6", "octa"]):
        if cat[name].n_face <= 8:
            out.append({"kind": "isel", "mesh": name})
    for name in (["cubesplit", "mixedpatch", "single5", "pyr5"] if tier == "quick" else ["cubesplit", "mixedpatch", "single5", "pyr5", "tetra", "amstrip", "isolated", "pyr8"]):
        out.append({"kind": "orders", "mesh": name})
    return out


def selftest_case(tier):
    return {"kind": "mesh", "mesh": "mixedpatch", "k": 1}


def warmup(tier):
    run_case({"kind": "mesh", "mesh": "single3", "k": 0})


def _nontrivial(faces, width):
    sizes = {len(f) for f in faces}
    shared = len(faces) > 1 and len({n for f in faces for n in f}) < sum(len(f) for f in faces)
    return len(sizes) > 1 or shared or any(len(f) < width for f in faces)


def _check(faces, width, n_node, closed, res, focus, lon=LON, lat=LAT, layout="C"):
    try:
        g = mkgrid(faces, width, n_node, lon, lat, layout)
    except Exception as e:
        res["violations"].append({"oracle": "construct", "sig": "c02:construct:%s" % type(e).__name__, "msg": repr(e), "focus": focus})
        return
    v = conn.check_c02(g, faces, n_node, width, closed)
    res["evaluations"] += 1
    res["transitions"] += len(OBS)
    key = digest((faces, width))
    res["states"].append(key)
    if _nontrivial(faces, width):
        res["nontrivial"].append(key)
    try:
        res["outcomes"].append(digest((g.edge_node_connectivity.values, g.face_edge_connectivity.values)))
    except Exception:
        pass
    for it in v.items:
        res["violations"].append(dict(it, focus=focus))


def _new():
    return {"violations": [], "evaluations": 0, "transitions": 0, "nontrivial": [], "outcomes": [], "axes": {}, "states": []}


def run_case(case):
    import os

    if case.get("jit") == "off" and os.environ.get("NUMBA_DISABLE_JIT") != "1":
        # interpreted numba kernels: a fresh interpreter with NUMBA_DISABLE_JIT=1 (the switch is read at import time)
        from vf.core import subrun

        r = subrun.run("vf.props.c02", [case], {"NUMBA_DISABLE_JIT": "1"}, nproc=1)[0]
        r.pop("_case", None)
        return _mark_jitoff(r)
    res = _new()
    kind = case["kind"]
    if kind == "scope":
        rows = conn.all_rows(case["n_node"], case["sizes"])
        i0, i1 = case["block"]
        nf = case["n_face"]
        sz = {}
        only = case.get("only")
        for r0 in rows[i0:i1]:
            for rest in itertools.product(rows, repeat=nf - 1):
                faces = [tuple(r0)] + [tuple(r) for r in rest]
                if only is not None and [list(f) for f in faces] != only:
                    continue
                _check(faces, case["width"], case["n_node"], False, res, {"kind": "scope", "n_node": case["n_node"], "sizes": case["sizes"], "n_face": nf, "width": case["width"], "block": [0, len(rows)], "only": [list(f) for f in faces]})
                k = "-".join(map(str, sorted(len(f) for f in faces)))
                sz[k] = sz.get(k, 0) + 1
        res["axes"] = {"scope_sizes": sz, "width": {case["width"]: res["evaluations"]}}
        res["sample"] = {"kind": "scope", "table": [list(f) for f in faces], "width": case["width"]}
        return res
    mesh = meshes.get(case["mesh"])
    lon, lat = mesh.lonlat()
    if kind == "mesh":
        for d, m in meshes.deviations(mesh, case["k"]):
            if "only" in case and d != case["only"]:
                continue
            lo, la = m.lonlat()
            for w in (m.width, m.width + 1):
                for layout in (LAYOUTS if d.get("dev", 0) <= 1 else ["C"]):
                    if "layout" in case and case["layout"] != layout:
                        continue
                    _check(m.faces, w, m.n_node, m.closed, res, {"kind": "mesh", "mesh": case["mesh"], "k": case["k"], "only": d, "width": w, "layout": layout}, lo, la, layout)
                    lay = res.setdefault("_lay", {})
                    lay[layout] = lay.get(layout, 0) + 1
        res["axes"] = {"mesh": {case["mesh"]: res["evaluations"]}, "deviations": {case["k"]: res["evaluations"]}, "memory_layout": res.pop("_lay", {})}
        res["sample"] = {"kind": "mesh", "mesh": case["mesh"], "deviation": d}
        return res
    if kind == "subsets":
        F = mesh.n_face
        for mask in range(1, 2 ** F):
            ids = [i for i in range(F) if mask >> i & 1]
            if "only" in case and ids != case["only"]:
                continue
            closed = mesh.closed and len(ids) == F
            for compact in (True, False):
                m = mesh.subset(ids, compact=compact)
                lo, la = m.lonlat()
                _check(m.faces, m.width, m.n_node, closed, res, {"kind": "subsets", "mesh": case["mesh"], "only": ids, "compact": compact}, lo, la)
        res["axes"] = {"subsets_of": {case["mesh"]: res["evaluations"]}}
        res["sample"] = {"kind": "subsets", "mesh": case["mesh"], "faces": ids}
        return res
    if kind == "isel":
        # the same face subsets, obtained as sub-grids of the parent through Grid.isel (a sub-grid is a grid: its derived edge
        # tables must describe the boundary segments of ITS faces), with the parent's edges derived before the selection or not,
        # and with an edge table supplied by the source in its own (reversed) numbering
        import uxarray as ux

        F = mesh.n_face
        keys = sorted(conn.edge_model(mesh.faces), key=lambda k: sorted(k))
        en_sup = np.array([sorted(k) for k in reversed(keys)], dtype=np.intp)
        for mask in range(1, 2 ** F):
            ids = [i for i in range(F) if mask >> i & 1]
            for parent in ("plain", "edges-derived", "edges-supplied"):
                foc = {"ids": ids, "parent": parent}
                if "only" in case and foc != case["only"]:
                    continue
                focus = {"kind": "isel", "mesh": case["mesh"], "only": foc}
                try:
                    if parent == "edges-supplied":
                        g0 = ux.Grid.from_topology(lon.copy(), lat.copy(), mesh.table(), fill_value=FILL, edge_node_connectivity=en_sup.copy())
                    else:
                        g0 = mkgrid(mesh.faces, mesh.width, mesh.n_node, lon, lat)
                    if parent == "edges-derived":
                        g0.edge_node_connectivity
                        g0.face_edge_connectivity
                    R = g0.isel(n_face=ids)
                    tab = np.asarray(R._ds["face_node_connectivity"].values)
                    rfaces = [tuple(int(i) for i in row if i != FILL) for row in tab]
                    rn = int(R._ds.sizes["n_node"])
                except Exception as e:
                    res["violations"].append({"oracle": "construct", "sig": "c02:isel:construct:%s" % type(e).__name__, "msg": "isel(n_face=%s) on %s (%s) raised %r" % (ids, case["mesh"], parent, e), "focus": focus})
                    continue
                v = conn.check_c02(R, rfaces, rn, tab.shape[1], mesh.closed and len(ids) == F)
                res["evaluations"] += 1
                res["transitions"] += len(OBS)
                key = digest(("isel", case["mesh"], ids, parent))
                res["states"].append(key)
                if _nontrivial(rfaces, tab.shape[1]):
                    res["nontrivial"].append(key)
                for it in v.items:
                    res["violations"].append(dict(it, sig=it["sig"].replace("c02:", "c02:isel:", 1), msg="sub-grid isel(n_face=%s) of %s (parent %s): %s" % (ids, case["mesh"], parent, it["msg"]), focus=focus))
        res["axes"] = {"isel_subsets_of": {case["mesh"]: res["evaluations"]}}
        res["sample"] = {"kind": "isel", "mesh": case["mesh"]}
        return res
    if kind == "orders":
        ref = None
        for order in itertools.permutations(range(len(OBS))):
            if "only" in case and list(order) != case["only"]:
                continue
            focus = {"kind": "orders", "mesh": case["mesh"], "only": list(order)}
            g = mkgrid(mesh.faces, mesh.width, mesh.n_node, lon, lat)
            vals = {}
            try:
                for i in order:
                    x = getattr(g, OBS[i])
                    vals[OBS[i]] = digest(np.asarray(getattr(x, "values", x)))
            except Exception as e:
                res["violations"].append({"oracle": "orders", "sig": "c02:orders:raises:%s" % type(e).__name__, "msg": "order %s: %r" % ([OBS[i] for i in order], e), "focus": focus})
                continue
            res["evaluations"] += 1
            res["transitions"] += len(OBS)
            res["nontrivial"].append(digest((case["mesh"], order)))
            res["states"].append(digest(sorted(vals.items())))
            v = conn.check_c02(g, mesh.faces, mesh.n_node, mesh.width, mesh.closed)
            for it in v.items:
                res["violations"].append(dict(it, focus=focus))
            if ref is None:
                ref = vals
            elif vals != ref:
                diff = [k for k in vals if vals[k] != ref[k]]
                res["violations"].append({"oracle": "orders", "sig": "c02:orders:order-dependent:%s" % "+".join(diff), "msg": "first-access order %s gives different %s" % ([OBS[i] for i in order], diff), "focus": focus})
            res["outcomes"].append(digest(sorted(vals.items())))
        res["axes"] = {"orders_on": {case["mesh"]: res["evaluations"]}}
        res["sample"] = {"kind": "orders", "mesh": case["mesh"], "order": [OBS[i] for i in order]}
        return res
    raise ValueError(kind)


def jitoff_cases(tier):
    quick = tier == "quick"
    names = ["mixedpatch", "cubesplit", "pyr5", "isolated", "tetra"] if quick else list(meshes.catalog())
    out = [{"kind": "mesh", "mesh": n, "k": 0 if quick else 1, "jit": "off"} for n in names]
    out += [{"kind": "subsets", "mesh": n, "jit": "off"} for n in (["cubesplit"] if quick else ["cubesplit", "prism", "pyr5", "tetra"])]
    return out


def _mark_jitoff(r):
    for v in r.get("violations", []):
        if ":jit-off:" not in v["sig"]:
            v["sig"] = v["sig"].replace("c02:", "c02:jit-off:", 1)
            v["msg"] = "[NUMBA_DISABLE_JIT=1] " + v["msg"]
        if isinstance(v.get("focus"), dict):
            v["focus"]["jit"] = "off"
    return r


def run(ctx):
    ctx.map(run_case, cases(ctx.tier))
    # the same tables with the numba kernels interpreted (NUMBA_DISABLE_JIT=1), in spawned interpreters
    from vf.core import subrun

    results = subrun.run("vf.props.c02", jitoff_cases(ctx.tier), {"NUMBA_DISABLE_JIT": "1"}, nproc=min(8, ctx.nproc))
    n = 0
    for r in results:
        c = r.pop("_case")
        ctx.add(c, _mark_jitoff(r))
        n += r["evaluations"]
    ctx.extra["jit_off_pass"] = {"cases": len(results), "evaluations": n}
    from vf.core.runner import Vacuous

    if not ctx.axes.get("scope_sizes") or len(ctx.axes["scope_sizes"]) < 4:
        raise Vacuous("size mixes not exercised")


BOUNDS = {k: v + "; " + BOUNDS_NOTE for k, v in BOUNDS.items()}
