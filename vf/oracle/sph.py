"""Independent spherical geometry used by the oracles (math/numpy only; no
code shared with uxarray)."""

import math

import numpy as np


def ll2xyz(lon_deg, lat_deg):
    lon = np.deg2rad(np.asarray(lon_deg, dtype=float))
    lat = np.deg2rad(np.asarray(lat_deg, dtype=float))
    return np.stack([np.cos(lat) * np.cos(lon), np.cos(lat) * np.sin(lon), np.sin(lat)], axis=-1)


def xyz2ll(p):
    p = np.asarray(p, dtype=float)
    r = np.linalg.norm(p, axis=-1)
    lat = np.rad2deg(np.arcsin(np.clip(p[..., 2] / r, -1, 1)))
    lon = np.rad2deg(np.arctan2(p[..., 1], p[..., 0]))
    return lon, lat


def angle(a, b):
    """great-circle angle (radians) between direction vectors, atan2 form."""
    a = np.asarray(a, dtype=float)
    b = np.asarray(b, dtype=float)
    c = np.cross(a, b)
    return np.arctan2(np.linalg.norm(c, axis=-1), np.sum(a * b, axis=-1))


def gc_dist_ll(lon1, lat1, lon2, lat2):
    return angle(ll2xyz(lon1, lat1), ll2xyz(lon2, lat2))


def unit(v):
    v = np.asarray(v, dtype=float)
    return v / np.linalg.norm(v, axis=-1, keepdims=True)


def lon_in_range(lon):
    lon = np.asarray(lon, dtype=float)
    return bool(np.all(lon >= -180.0) and np.all(lon <= 180.0))


def tri_area(a, b, c):
    """spherical triangle area (L'Huilier-free, atan2 form: Van Oosterom & Strackee)."""
    a, b, c = (np.asarray(x, dtype=float) for x in (a, b, c))
    num = float(np.dot(a, np.cross(b, c)))
    den = 1.0 + float(np.dot(a, b)) + float(np.dot(b, c)) + float(np.dot(c, a))
    return 2.0 * math.atan2(num, den)


def poly_area(pts):
    """area of a convex spherical polygon given ccw unit vectors (fan of triangles)."""
    pts = [np.asarray(p, dtype=float) for p in pts]
    return sum(tri_area(pts[0], pts[i], pts[i + 1]) for i in range(1, len(pts) - 1))
