"""Set-model oracles for derived connectivity (C02, C03).

The model is the list of faces (tuples of node indices).  Nothing here shares
code with uxarray.
"""

import itertools

import numpy as np

INT_FILL = np.iinfo(np.intp).min
INT_DTYPE = np.dtype(np.intp)


def edge_model(faces):
    e = {}
    for fi, f in enumerate(faces):
        n = len(f)
        for j in range(n):
            e.setdefault(frozenset((f[j], f[(j + 1) % n])), []).append((fi, j))
    return e


def manifold(faces):
    e = edge_model(faces)
    if any(len(k) != 2 for k in e):
        return False
    return all(len(v) <= 2 for v in e.values())


class V:
    """violation collector"""

    def __init__(self):
        self.items = []

    def add(self, oracle, sig, msg):
        self.items.append({"oracle": oracle, "sig": sig, "msg": msg})


def _get(grid, name, v, prop):
    try:
        return getattr(grid, name)
    except Exception as e:
        v.add(name, "%s:%s:raises:%s" % (prop, name, type(e).__name__), "%s raised %r" % (name, e))
        return None


def _std_table(arr, name, v, prop, width=None, allow_fill=True):
    """standard form: INT_DTYPE, 2-D."""
    a = np.asarray(arr)
    ok = True
    if a.dtype != INT_DTYPE:
        v.add(name, "%s:%s:dtype" % (prop, name), "%s has dtype %s, expected %s" % (name, a.dtype, INT_DTYPE))
        ok = False
    if a.ndim != 2:
        v.add(name, "%s:%s:ndim" % (prop, name), "%s has shape %s" % (name, a.shape))
        return False
    return ok


def check_c02(grid, faces, n_node, width, closed, v=None):
    """faces: list of tuples of node indices as handed to the grid (row i = face i)."""
    v = v or V()
    P = "c02"
    E = edge_model(faces)
    F = len(faces)

    # edge_node_connectivity is read last: the tables are compared as one
    # mutually consistent snapshot (whether earlier reads changed it is C08's business)
    fe = _get(grid, "face_edge_connectivity", v, P)
    npf = _get(grid, "n_nodes_per_face", v, P)
    nmfe = _get(grid, "n_max_face_edges", v, P)
    n_edge = _get(grid, "n_edge", v, P)
    en = _get(grid, "edge_node_connectivity", v, P)

    rows = None
    if en is not None:
        a = np.asarray(en.values)
        _std_table(a, "edge_node_connectivity", v, P)
        if a.ndim == 2:
            if a.shape != (len(E), 2):
                v.add("edge_node", "c02:edge_node:shape", "edge_node_connectivity shape %s, expected (%d, 2)" % (a.shape, len(E)))
            if a.size and (a == INT_FILL).any():
                v.add("edge_node", "c02:edge_node:fill", "edge_node_connectivity contains padding")
            if a.shape[1:] == (2,):
                rows = [frozenset(int(x) for x in r) for r in a]
                extra = [sorted(r) for r in rows if r not in E]
                missing = [sorted(k) for k in E if k not in set(rows)]
                if extra:
                    v.add("edge_node", "c02:edge_node:not-a-boundary-segment", "rows %s are not consecutive-corner pairs of any face" % extra[:4])
                if missing:
                    v.add("edge_node", "c02:edge_node:missing-segment", "boundary segments %s are not listed" % missing[:4])
                if len(set(rows)) != len(rows):
                    v.add("edge_node", "c02:edge_node:duplicate", "an unordered pair is listed more than once")
        if tuple(en.dims) != ("n_edge", "two"):
            v.add("edge_node", "c02:edge_node:dims", "dims %s" % (en.dims,))
    if n_edge is not None and int(n_edge) != len(E):
        v.add("n_edge", "c02:n_edge:value", "n_edge = %s, number of boundary segments = %d" % (n_edge, len(E)))

    if fe is not None:
        a = np.asarray(fe.values)
        _std_table(a, "face_edge_connectivity", v, P)
        if a.shape != (F, width):
            v.add("face_edge", "c02:face_edge:shape", "face_edge_connectivity shape %s, expected %s" % (a.shape, (F, width)))
        elif rows is not None:
            bad = []
            for fi, f in enumerate(faces):
                n = len(f)
                for j in range(width):
                    x = int(a[fi, j])
                    if j < n:
                        want = frozenset((f[j], f[(j + 1) % n]))
                        if x == INT_FILL or not (0 <= x < len(rows)) or rows[x] != want:
                            bad.append((fi, j, x, sorted(want)))
                    elif x != INT_FILL:
                        bad.append((fi, j, x, "fill"))
            if bad:
                kinds = {"pad" if b[3] == "fill" else "edge" for b in bad}
                v.add(
                    "face_edge",
                    "c02:face_edge:wrong-%s" % "+".join(sorted(kinds)),
                    "face_edge_connectivity[f, j] does not join corner j and j+1 / padding misplaced at (f, j, got, want) %s" % bad[:4],
                )
    if npf is not None:
        a = np.asarray(npf.values)
        want = np.array([len(f) for f in faces])
        if a.shape != want.shape or not np.array_equal(a, want):
            v.add("n_nodes_per_face", "c02:n_nodes_per_face:value", "n_nodes_per_face = %s, corners per face = %s" % (a.tolist()[:8], want.tolist()[:8]))
        if a.dtype.kind not in "iu":
            v.add("n_nodes_per_face", "c02:n_nodes_per_face:dtype", "dtype %s" % a.dtype)
    if nmfe is not None and int(nmfe) != width:
        v.add("n_max_face_edges", "c02:n_max_face_edges:value", "n_max_face_edges = %s, row width = %d" % (nmfe, width))
    if closed and n_edge is not None:
        if n_node - int(n_edge) + F != 2:
            v.add("euler", "c02:euler", "V - E + F = %d on a closed grid" % (n_node - int(n_edge) + F))
    return v


def _row_members(row):
    """(members before first fill, True iff fill only forms a suffix)"""
    row = [int(x) for x in row]
    k = len(row)
    for i, x in enumerate(row):
        if x == INT_FILL:
            k = i
            break
    return row[:k], all(x == INT_FILL for x in row[k:])


def check_c03(grid, faces, n_node, v=None, supplied_edges=None, suffix_required=True):
    """Requires a manifold face list."""
    v = v or V()
    P = "c03"
    E = edge_model(faces)
    F = len(faces)

    nf = _get(grid, "node_face_connectivity", v, P)
    ef = _get(grid, "edge_face_connectivity", v, P)
    ff = _get(grid, "face_face_connectivity", v, P)
    hole = _get(grid, "hole_edge_indices", v, P)
    nmnf = _get(grid, "n_max_node_faces", v, P)
    nmff = _get(grid, "n_max_face_faces", v, P)
    en = _get(grid, "edge_node_connectivity", v, P)  # read last, see check_c02

    # node_face: f in node_face[n] iff n corner of f
    if nf is not None:
        a = np.asarray(nf.values)
        _std_table(a, "node_face_connectivity", v, P)
        want = {n: set() for n in range(n_node)}
        for fi, f in enumerate(faces):
            for n in f:
                want[n].add(fi)
        if a.ndim == 2:
            if a.shape[0] != n_node:
                v.add("node_face", "c03:node_face:shape", "shape %s for %d nodes" % (a.shape, n_node))
            else:
                wmax = max((len(s) for s in want.values()), default=0)
                if a.shape[1] != wmax:
                    v.add("node_face", "c03:node_face:width", "width %d, maximum node valence %d" % (a.shape[1], wmax))
                bad = []
                for n in range(n_node):
                    mem, suffix = _row_members(a[n])
                    if not suffix_required:
                        mem = [int(x) for x in a[n] if x != INT_FILL]
                    if not suffix and suffix_required:
                        bad.append((n, "padding not at row end"))
                    elif sorted(mem) != sorted(want[n]) or len(set(mem)) != len(mem):
                        bad.append((n, mem, sorted(want[n])))
                if bad:
                    v.add("node_face", "c03:node_face:membership", "node_face_connectivity rows differ from {f : n in f}: %s" % bad[:4])
            if nmnf is not None and int(nmnf) != a.shape[1]:
                v.add("n_max_node_faces", "c03:n_max_node_faces", "n_max_node_faces=%s, table width %d" % (nmnf, a.shape[1]))

    rows = None
    if en is not None:
        a = np.asarray(en.values)
        if a.ndim == 2 and a.shape[1] == 2:
            rows = [frozenset(int(x) for x in r) for r in a]

    efa = None
    if ef is not None and rows is not None:
        efa = np.asarray(ef.values)
        _std_table(efa, "edge_face_connectivity", v, P)
        if efa.shape != (len(rows), 2):
            v.add("edge_face", "c03:edge_face:shape", "edge_face_connectivity shape %s for %d edges" % (efa.shape, len(rows)))
            efa = None
        else:
            bad = []
            for e, key in enumerate(rows):
                want = sorted({fi for fi, _ in E.get(key, [])})
                wantm = sorted(fi for fi, _ in E.get(key, []))
                mem, suffix = _row_members(efa[e])
                if not suffix:
                    bad.append((e, sorted(key), "padding before a face", [int(x) for x in efa[e]]))
                elif sorted(mem) != wantm:
                    bad.append((e, sorted(key), mem, wantm))
            if bad:
                v.add("edge_face", "c03:edge_face:membership", "edge_face_connectivity rows differ from the faces whose boundary contains the edge: %s" % bad[:4])

    if ff is not None:
        a = np.asarray(ff.values)
        _std_table(a, "face_face_connectivity", v, P)
        if a.ndim == 2:
            if a.shape[0] != F:
                v.add("face_face", "c03:face_face:shape", "shape %s for %d faces" % (a.shape, F))
            else:
                want = {fi: [] for fi in range(F)}
                for key, inc in E.items():
                    if len(inc) == 2:
                        (f1, _), (f2, _) = inc
                        want[f1].append(f2)
                        want[f2].append(f1)
                bad = []
                for fi in range(F):
                    mem, suffix = _row_members(a[fi])
                    if not suffix_required:
                        mem = [int(x) for x in a[fi] if x != INT_FILL]
                    if not suffix and suffix_required:
                        bad.append((fi, "padding not at row end", [int(x) for x in a[fi]]))
                    elif sorted(mem) != sorted(want[fi]):
                        bad.append((fi, mem, sorted(want[fi])))
                if bad:
                    v.add("face_face", "c03:face_face:membership", "face_face_connectivity rows differ from faces across interior edges (once per shared edge): %s" % bad[:4])
            if nmff is not None and int(nmff) != a.shape[1]:
                v.add("n_max_face_faces", "c03:n_max_face_faces", "n_max_face_faces=%s, table width %d" % (nmff, a.shape[1]))

    if hole is not None and rows is not None:
        h = np.asarray(hole.values if hasattr(hole, "values") else hole)
        want = sorted(e for e, key in enumerate(rows) if len(E.get(key, [])) == 1)
        got = sorted(int(x) for x in h.ravel())
        if got != want:
            v.add("hole_edges", "c03:hole_edge_indices:value", "hole_edge_indices=%s, edges with a single face=%s" % (got[:10], want[:10]))
        if h.dtype.kind not in "iu":
            v.add("hole_edges", "c03:hole_edge_indices:dtype", "dtype %s" % h.dtype)
    return v


# --------------------------------------------------------------------------
# complete small scopes of face-node tables
# --------------------------------------------------------------------------

def all_rows(n_node, sizes):
    """every sequence of k distinct nodes, k in sizes (all rotations and both
    orientations of every cyclic order are separate rows)."""
    out = []
    for k in sizes:
        if k <= n_node:
            out.extend(itertools.permutations(range(n_node), k))
    return out


def all_tables(n_node, n_face, sizes):
    rows = all_rows(n_node, sizes)
    return itertools.product(rows, repeat=n_face)
