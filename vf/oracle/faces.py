"""Faces as cyclic tuples of positions: read-back from a Grid and comparison
up to rotation (never reflection)."""

import numpy as np

from . import sph

FILL = np.iinfo(np.intp).min


def faces_of_grid(g):
    """list of (k,3) arrays of unit vectors, one per face, read through node_lon/node_lat and
    face_node_connectivity of the grid's dataset (no lazy derivation is triggered)."""
    ds = g._ds
    fn = np.asarray(ds["face_node_connectivity"].values)
    if fn.ndim == 1:
        fn = fn[None, :]
    if "node_lon" in ds:
        P = sph.ll2xyz(np.asarray(ds["node_lon"].values, dtype=float), np.asarray(ds["node_lat"].values, dtype=float))
    else:
        P = sph.unit(np.stack([np.asarray(ds[k].values, dtype=float) for k in ("node_x", "node_y", "node_z")], axis=-1))
    out = []
    for row in fn:
        idx = [int(i) for i in row if i != FILL and i >= 0]
        out.append(P[idx])
    return out


def faces_of_mesh(m):
    P = np.array(m.points, dtype=float)
    return [P[list(f)] for f in m.faces]


def same_face(a, b, tol=1e-9, either=False):
    """equal up to cyclic rotation (and, if ``either``, traversal direction); positions within tol (chord)."""
    if len(a) != len(b):
        return False
    n = len(a)
    if n == 0:
        return True
    for bb in ((b, b[::-1]) if either else (b,)):
        for k in range(n):
            if np.all(np.linalg.norm(np.roll(bb, -k, axis=0) - a, axis=1) <= tol):
                return True
    return False


def compare(got, want, tol=1e-9, ordered=True, either=False):
    """returns None if the face lists agree, else a message."""
    if len(got) != len(want):
        return "n_face %d, expected %d" % (len(got), len(want))
    if ordered:
        for i, (a, b) in enumerate(zip(got, want)):
            if not same_face(a, b, tol, either):
                return "face %d: corners %s, expected %s (up to rotation)" % (i, _fmt(a), _fmt(b))
        return None
    left = list(range(len(want)))
    for i, a in enumerate(got):
        hit = next((j for j in left if same_face(a, want[j], tol)), None)
        if hit is None:
            return "face %d of the result (%s) matches no remaining source face" % (i, _fmt(a))
        left.remove(hit)
    return None


def _fmt(a):
    lon, lat = sph.xyz2ll(np.asarray(a))
    return "[" + ", ".join("(%.4f,%.4f)" % (x, y) for x, y in zip(np.atleast_1d(lon), np.atleast_1d(lat))) + "]"


def standard_form(g):
    """list of problems with the standard form of a Grid's face table and coordinates."""
    out = []
    ds = g._ds
    fn = np.asarray(ds["face_node_connectivity"].values)
    if fn.dtype != np.dtype(np.intp):
        out.append("face_node_connectivity dtype %s" % fn.dtype)
    if fn.ndim != 2:
        out.append("face_node_connectivity ndim %d" % fn.ndim)
        return out
    n_node = int(ds.sizes.get("n_node", -1))
    fv = ds["face_node_connectivity"].attrs.get("_FillValue")
    if fv is not None and fv != FILL:
        out.append("_FillValue attr %r" % (fv,))
    for i, row in enumerate(fn):
        isf = row == FILL
        k = int((~isf).sum())
        if isf[:k].any():
            out.append("row %d has fill before a real corner: %s" % (i, row.tolist()))
            break
        real = row[:k]
        if k < 3:
            out.append("row %d has %d corners" % (i, k))
            break
        if (real < 0).any() or (real >= n_node).any():
            out.append("row %d has an index out of range [0,%d): %s" % (i, n_node, row.tolist()))
            break
    if "node_lon" in ds:
        lon = np.asarray(ds["node_lon"].values, dtype=float)
        lat = np.asarray(ds["node_lat"].values, dtype=float)
        if lon.size and (lon.min() < -180.0 or lon.max() > 180.0):
            out.append("node_lon outside [-180,180]: [%g,%g]" % (lon.min(), lon.max()))
        if lat.size and (lat.min() < -90.0 or lat.max() > 90.0):
            out.append("node_lat outside [-90,90]")
    return out
