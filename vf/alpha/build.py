"""Turning abstract meshes into uxarray objects, and the data-array alphabet."""

import itertools

import numpy as np

from . import meshes

FILL = meshes.INT_FILL


def grid(mesh, width=None):
    """Fresh Grid from a mesh through Grid.from_topology (standard-form table)."""
    import uxarray as ux

    lon, lat = mesh.lonlat()
    return ux.Grid.from_topology(lon.copy(), lat.copy(), mesh.table(width), fill_value=FILL)


def uxda(g, values, elem, lead=(), name="v"):
    """UxDataArray with leading dims d0,d1.. and the element dim last."""
    import uxarray as ux

    dims = tuple("d%d" % i for i in range(len(lead))) + (elem,)
    return ux.UxDataArray(np.asarray(values), dims=dims, uxgrid=g, name=name)


def lead_expand(base, lead):
    """Make an array of shape lead+(n,) whose slices are distinct affine images
    of ``base`` (so a mixed-up leading index is visible)."""
    base = np.asarray(base)
    if not lead:
        return base.copy()
    out = np.empty(tuple(lead) + base.shape, dtype=base.dtype)
    for c, idx in enumerate(itertools.product(*[range(k) for k in lead])):
        if base.dtype == bool:
            out[idx] = base if c % 2 == 0 else ~base
        elif base.dtype.kind in "iu":
            out[idx] = base * (c + 1) + c
        else:
            out[idx] = base * (1.0 + 0.5 * c) - 0.25 * c
    return out


def generic_field(n, salt=0):
    """deterministic 'generic' float values, pairwise distinct, mixed sign."""
    i = np.arange(n, dtype=float)
    return np.sin(1.0 + 2.3 * i + 0.7 * salt) * 3.0 + 0.01 * i


def data_alphabet(n, kinds=("identity", "generic", "int", "bool", "ones", "impulses")):
    """name -> 1-D base array of length n."""
    out = []
    if "identity" in kinds:
        out.append(("identity", np.arange(n, dtype=float)))
    if "generic" in kinds:
        out.append(("generic", generic_field(n)))
    if "f32" in kinds:
        out.append(("f32", generic_field(n, 3).astype(np.float32)))
    if "int" in kinds:
        out.append(("int", (np.arange(n) * 7 + 3) % 11 - 4))
    if "bool" in kinds:
        out.append(("bool", (np.arange(n) * 5 + 1) % 3 == 0))
    if "ones" in kinds:
        out.append(("ones", np.ones(n)))
    if "impulses" in kinds:
        for i in range(n):
            e = np.zeros(n)
            e[i] = 1.0
            out.append(("impulse%d" % i, e))
    return out
