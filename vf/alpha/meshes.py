"""Abstract meshes: faces are cyclic tuples of *positions* on the unit sphere.

A ``Mesh`` holds float unit vectors and faces as tuples of point indices in
counter-clockwise order seen from outside.  Index-level deviations (node
relabelling, face order, start corner, row width) are applied by
``Mesh.variant``; the abstract content (``Mesh.abstract_faces``) is invariant
under all of them and is what oracles compare against.
"""

import itertools
import math

import numpy as np

INT_FILL = np.iinfo(np.intp).min


def _unit(v):
    v = np.asarray(v, dtype=float)
    return v / np.linalg.norm(v)


def lonlat_to_xyz(lon, lat):
    lon, lat = math.radians(lon), math.radians(lat)
    return (math.cos(lat) * math.cos(lon), math.cos(lat) * math.sin(lon), math.sin(lat))


def xyz_to_lonlat(p):
    x, y, z = p
    r = math.sqrt(x * x + y * y + z * z)
    lat = math.degrees(math.asin(max(-1.0, min(1.0, z / r))))
    lon = math.degrees(math.atan2(y, x))
    if abs(abs(lat) - 90.0) < 1e-13:
        lon = 0.0
    return lon, lat


def orient_ccw(points, face):
    """Order a convex face's vertices counter-clockwise seen from outside."""
    pts = np.array([points[i] for i in face], dtype=float)
    c = _unit(pts.mean(axis=0))
    # tangent basis at c
    a = np.array([0.0, 0.0, 1.0]) if abs(c[2]) < 0.9 else np.array([1.0, 0.0, 0.0])
    e1 = _unit(np.cross(a, c))
    e2 = np.cross(c, e1)
    ang = [math.atan2(float(np.dot(p, e2)), float(np.dot(p, e1))) for p in pts]
    order = np.argsort(ang)
    return tuple(face[i] for i in order)


class Mesh:
    def __init__(self, name, points, faces, closed=False, tags=()):
        self.name = name
        self.points = [tuple(float(c) for c in p) for p in points]
        self.faces = [tuple(int(i) for i in f) for f in faces]
        self.closed = closed
        self.tags = tuple(tags)

    # ---- basic facts -------------------------------------------------------
    @property
    def n_node(self):
        return len(self.points)

    @property
    def n_face(self):
        return len(self.faces)

    @property
    def width(self):
        return max(len(f) for f in self.faces)

    def lonlat(self):
        ll = [xyz_to_lonlat(p) for p in self.points]
        return np.array([a for a, _ in ll]), np.array([b for _, b in ll])

    def table(self, width=None, fill=INT_FILL, dtype=np.intp):
        w = width or self.width
        t = np.full((self.n_face, w), fill, dtype=dtype)
        for i, f in enumerate(self.faces):
            t[i, : len(f)] = f
        return t

    def abstract_faces(self):
        """faces as tuples of positions (list, in face order)."""
        return [tuple(self.points[i] for i in f) for f in self.faces]

    def edges(self):
        """set model: frozenset node pairs -> list of (face, corner j)"""
        e = {}
        for fi, f in enumerate(self.faces):
            n = len(f)
            for j in range(n):
                e.setdefault(frozenset((f[j], f[(j + 1) % n])), []).append((fi, j))
        return e

    def is_manifold(self):
        return all(len(v) <= 2 for v in self.edges().values()) and all(len(k) == 2 for k in self.edges())

    # ---- deviations --------------------------------------------------------
    def relabel(self, perm, name=None):
        """perm[old] = new node index."""
        pts = [None] * self.n_node
        for old, new in enumerate(perm):
            pts[new] = self.points[old]
        faces = [tuple(perm[i] for i in f) for f in self.faces]
        return Mesh(name or self.name + "/relabel", pts, faces, self.closed, self.tags)

    def reorder_faces(self, order, name=None):
        return Mesh(name or self.name + "/forder", self.points, [self.faces[i] for i in order], self.closed, self.tags)

    def rotate_face(self, fi, k, name=None):
        faces = list(self.faces)
        f = faces[fi]
        k %= len(f)
        faces[fi] = f[k:] + f[:k]
        return Mesh(name or self.name + "/start", self.points, faces, self.closed, self.tags)

    def subset(self, face_ids, name=None, compact=True):
        faces = [self.faces[i] for i in face_ids]
        if not compact:
            return Mesh(name or self.name + "/sub", self.points, faces, False, self.tags)
        used = sorted({i for f in faces for i in f})
        m = {o: n for n, o in enumerate(used)}
        return Mesh(
            name or self.name + "/sub" + "".join(map(str, face_ids)),
            [self.points[i] for i in used],
            [tuple(m[i] for i in f) for f in faces],
            False,
            self.tags,
        )

    def transform(self, R, name=None):
        R = np.asarray(R, dtype=float)
        pts = [tuple(R @ np.array(p)) for p in self.points]
        return Mesh(name or self.name + "/rot", pts, self.faces, self.closed, self.tags)

    def spec(self):
        return {"name": self.name, "points": self.points, "faces": self.faces, "closed": self.closed}

    @staticmethod
    def from_spec(s):
        return Mesh(s["name"], s["points"], s["faces"], s.get("closed", False))

    # ---- into uxarray --------------------------------------------------------
    def grid(self, width=None):
        import uxarray as ux

        lon, lat = self.lonlat()
        return ux.Grid.from_topology(lon, lat, self.table(width), fill_value=INT_FILL)


# --------------------------------------------------------------------------
# rotations
# --------------------------------------------------------------------------

def rot_axis(axis, deg):
    a = _unit(axis)
    t = math.radians(deg)
    K = np.array([[0, -a[2], a[1]], [a[2], 0, -a[0]], [-a[1], a[0], 0]])
    return np.eye(3) + math.sin(t) * K + (1 - math.cos(t)) * (K @ K)


def rot_to_pole(p):
    """rotation taking unit vector p to the north pole."""
    p = _unit(p)
    z = np.array([0.0, 0.0, 1.0])
    ax = np.cross(p, z)
    s = np.linalg.norm(ax)
    if s < 1e-14:
        return np.eye(3) if p[2] > 0 else rot_axis((1, 0, 0), 180)
    return rot_axis(ax, math.degrees(math.atan2(s, float(np.dot(p, z)))))


GENERIC_TILT = rot_axis((1, 2, 3), 37.0) @ rot_axis((0, 0, 1), 11.0)


# --------------------------------------------------------------------------
# families
# --------------------------------------------------------------------------

def _poly(name, verts, faces, closed=True, tags=()):
    pts = [tuple(_unit(v)) for v in verts]
    faces = [orient_ccw(pts, f) for f in faces]
    return Mesh(name, pts, faces, closed, tags)


def tetrahedron():
    v = [(1, 1, 1), (1, -1, -1), (-1, 1, -1), (-1, -1, 1)]
    f = [(0, 1, 2), (0, 1, 3), (0, 2, 3), (1, 2, 3)]
    return _poly("tetra", v, f).transform(rot_axis((1, 2, 3), 13.0), "tetra")


def cube():
    v = [(sx, sy, sz) for sx in (-1, 1) for sy in (-1, 1) for sz in (-1, 1)]
    f = [(0, 1, 3, 2), (4, 5, 7, 6), (0, 1, 5, 4), (2, 3, 7, 6), (0, 2, 6, 4), (1, 3, 7, 5)]
    return _poly("cube", v, f).transform(rot_axis((0, 0, 1), 10.0), "cube")


def octahedron():
    v = [(1, 0, 0), (-1, 0, 0), (0, 1, 0), (0, -1, 0), (0, 0, 1), (0, 0, -1)]
    f = [(a, b, c) for a in (0, 1) for b in (2, 3) for c in (4, 5)]
    return _poly("octa", v, f).transform(rot_axis((1, 1, 0), 17.0) @ rot_axis((0, 0, 1), 5.0), "octa")


def prism():
    top = [(math.cos(math.radians(a)), math.sin(math.radians(a)), 0.6) for a in (10, 130, 250)]
    bot = [(math.cos(math.radians(a)), math.sin(math.radians(a)), -0.6) for a in (10, 130, 250)]
    v = top + bot
    f = [(0, 1, 2), (3, 4, 5), (0, 1, 4, 3), (1, 2, 5, 4), (2, 0, 3, 5)]
    return _poly("prism", v, f)


def pyramid(n, apex_lat=90.0, base_lat=-25.0, phase=7.0):
    """n triangles + one n-gon; apex valence n."""
    base = [lonlat_to_xyz(phase + 360.0 * i / n - 180.0, base_lat) for i in range(n)]
    apex = lonlat_to_xyz(0.0, apex_lat)
    v = base + [apex]
    f = [(i, (i + 1) % n, n) for i in range(n)] + [tuple(range(n))]
    m = _poly("pyr%d" % n, v, f)
    return m.transform(rot_axis((1, 0.3, 0), 21.0), "pyr%d" % n)


def cube_split():
    """cube with one face split into two triangles (mix 3/4, faces sharing
    edges, valence 3..4)."""
    c = cube()
    f0 = c.faces[0]
    faces = [(f0[0], f0[1], f0[2]), (f0[0], f0[2], f0[3])] + c.faces[1:]
    return Mesh("cubesplit", c.points, faces, True)


def cubesphere(n):
    """n x n x n gnomonic cube-sphere: 6 n^2 quads."""
    pts = []
    key = {}
    faces = []

    def node(p):
        p = _unit(p)
        k = tuple(int(round(c * 1e9)) for c in p)
        if k not in key:
            key[k] = len(pts)
            pts.append(tuple(p))
        return key[k]

    ang = [math.tan(math.radians(-45.0 + 90.0 * i / n)) for i in range(n + 1)]
    for axis in range(3):
        for sign in (-1, 1):
            for i in range(n):
                for j in range(n):
                    quad = []
                    for (a, b) in ((i, j), (i + 1, j), (i + 1, j + 1), (i, j + 1)):
                        p = [0.0, 0.0, 0.0]
                        p[axis] = float(sign)
                        p[(axis + 1) % 3] = ang[a]
                        p[(axis + 2) % 3] = ang[b]
                        quad.append(node(p))
                    faces.append(tuple(quad))
    faces = [orient_ccw(pts, f) for f in faces]
    m = Mesh("cs%d" % n, pts, faces, True)
    return m.transform(rot_axis((0, 0, 1), 3.0) @ rot_axis((1, 0, 0), 2.0), "cs%d" % n)


def icosahedron():
    phi = (1 + 5 ** 0.5) / 2
    v = []
    for a, b in ((1, phi), (-1, phi), (1, -phi), (-1, -phi)):
        v += [(0, a, b), (a, b, 0), (b, 0, a)]
    pts = [tuple(_unit(p)) for p in v]
    # faces = triples of mutually adjacent vertices (edge length = min distance)
    P = np.array(pts)
    d = np.linalg.norm(P[:, None] - P[None], axis=2)
    e = d[d > 1e-9].min()
    adj = (abs(d - e) < 1e-9)
    f = [t for t in itertools.combinations(range(12), 3) if adj[t[0], t[1]] and adj[t[1], t[2]] and adj[t[0], t[2]]]
    m = _poly("icosa", pts, f)
    return m.transform(rot_axis((1, 2, 0.5), 9.0), "icosa")


def mixed_partial():
    """quad + pentagon + triangle + quad + hexagon patch (sizes 3..6, padding,
    boundary edges, nodes of valence 1..3) around lon 30, lat 15."""
    ll = [
        (0, 0.3), (10, -0.4), (20, 0.2), (30, -0.1),      # 0-3 bottom row
        (0.5, 10.2), (10.3, 9.7), (20.4, 10.1), (30.2, 9.8),  # 4-7 top row
        (15.2, 14.3),                                      # 8  m
        (5.1, 18.2),                                       # 9  a
        (34.3, 17.1), (30.1, 24.2), (20.2, 24.4),          # 10-12
    ]
    pts = [lonlat_to_xyz(a + 15.0, b + 5.0) for a, b in ll]
    faces = [
        (0, 1, 5, 4),
        (1, 2, 6, 8, 5),
        (4, 5, 9),
        (2, 3, 7, 6),
        (6, 7, 10, 11, 12, 8),
    ]
    faces = [orient_ccw(pts, f) for f in faces]
    return Mesh("mixedpatch", pts, faces, False)


def antimeridian_strip():
    """five quads marching across lon=180, plus a triangle; some nodes exactly on +-180."""
    lons = [160, 170, 180, -170, -160, -150]
    pts = []
    for lat in (-10, 8):
        for lo in lons:
            pts.append(lonlat_to_xyz(lo, lat + (0.5 if lo in (170, -170) else 0)))
    pts.append(lonlat_to_xyz(175, 25))
    n = len(lons)
    faces = [(i, i + 1, n + i + 1, n + i) for i in range(n - 1)]
    faces.append((n + 1, n + 2, 2 * n))
    faces = [orient_ccw(pts, f) for f in faces]
    return Mesh("amstrip", pts, faces, False, tags=("antimeridian",))


def am3():
    """three faces of different sizes crossing the antimeridian (at different latitudes, listed between and
    around two ordinary faces) - none touches a pole."""
    ll = [
        (170, 0), (-170, 0), (-170, 10), (170, 10),      # 0-3
        (175, 20),                                        # 4
        (170, -10), (-175, -12), (165, -5),               # 5-7
        (150, 0), (150, 10),                              # 8-9
        (-150, 0),                                        # 10
    ]
    pts = [lonlat_to_xyz(a, b) for a, b in ll]
    faces = [
        (8, 0, 3, 9),          # ordinary quad
        (0, 1, 2, 3),          # crossing quad
        (1, 10, 2),            # ordinary triangle
        (3, 2, 4),             # crossing triangle
        (5, 6, 1, 0, 7),       # crossing pentagon
    ]
    faces = [orient_ccw(pts, f) for f in faces]
    return Mesh("am3", pts, faces, False, tags=("antimeridian",))


def pole_cap():
    """hexagon enclosing the north pole + ring of quads, node count 18."""
    ring1 = [lonlat_to_xyz(-180 + 60 * i + 5, 80) for i in range(6)]
    ring2 = [lonlat_to_xyz(-180 + 60 * i + 5, 60) for i in range(6)]
    pts = ring1 + ring2
    faces = [tuple(range(6))] + [(i, (i + 1) % 6, 6 + (i + 1) % 6, 6 + i) for i in range(6)]
    faces = [orient_ccw(pts, f) for f in faces]
    return Mesh("polecap", pts, faces, False, tags=("pole",))


def pole_node_fan():
    """six triangles meeting in a node exactly at the south pole."""
    ring = [lonlat_to_xyz(-170 + 60 * i, -70) for i in range(6)]
    pts = ring + [(0.0, 0.0, -1.0)]
    faces = [(i, (i + 1) % 6, 6) for i in range(6)]
    faces = [orient_ccw(pts, f) for f in faces]
    return Mesh("polefan", pts, faces, False, tags=("pole",))


def single(n=3):
    pts = [lonlat_to_xyz(20 + 10 * math.cos(math.radians(360 * i / n + 3)), 30 + 10 * math.sin(math.radians(360 * i / n + 3))) for i in range(n)]
    return Mesh("single%d" % n, pts, [tuple(range(n))], False)


def two_isolated():
    a = single(3)
    b = single(4).transform(rot_axis((0, 0, 1), 90.0))
    pts = a.points + b.points
    faces = a.faces + [tuple(i + a.n_node for i in f) for f in b.faces]
    return Mesh("isolated", pts, faces, False)


def corner_touch():
    """two quads that meet only at one node."""
    ll = [(0, 0), (10, 0), (10, 10), (0, 10), (20, 10), (20, 20), (10, 20)]
    pts = [lonlat_to_xyz(a, b) for a, b in ll]
    faces = [(0, 1, 2, 3), (2, 4, 5, 6)]
    return Mesh("cornertouch", pts, faces, False)


def union(name, parts):
    pts, faces = [], []
    for m in parts:
        off = len(pts)
        pts += m.points
        faces += [tuple(i + off for i in f) for f in m.faces]
    return Mesh(name, pts, faces, False)


def sizes38():
    """one face of every size 3..8 (disjoint), in non-monotone size order."""
    order = [5, 3, 8, 4, 7, 6]
    parts = [single(n).transform(rot_axis((0, 0, 1), 40.0 * i) @ rot_axis((0, 1, 0), 6.0 * i)) for i, n in enumerate(order)]
    return union("sizes38", parts)


def eq_ring(n=8, phase=-180.0 + 10.0):
    """band of n quads around the equator (lat -12..14) with a triangle on top of every quad: mixed sizes, faces at
    every longitude, so that whatever the central longitude of a projection is some faces straddle its seam and
    exactly one quad and one triangle straddle +-180."""
    step = 360.0 / n
    lo = [lonlat_to_xyz(phase + step * i, -12.0) for i in range(n)]
    hi = [lonlat_to_xyz(phase + step * i, 14.0) for i in range(n)]
    ap = [lonlat_to_xyz(phase + step * (i + 0.5), 37.0) for i in range(n)]
    pts = lo + hi + ap
    faces = []
    for i in range(n):
        j = (i + 1) % n
        faces.append((i, j, n + j, n + i))
        faces.append((n + i, n + j, 2 * n + i))
    faces = [orient_ccw(pts, f) for f in faces]
    return Mesh("eqring", pts, faces, False, tags=("antimeridian",))


def quad_patch(name, n=4, cell=0.002, lon0=11.0, lat0=47.0):
    """n x n patch of lon/lat-aligned quads with cells of `cell` degrees (kilometre-scale for 0.002..0.01): anything the
    library compares against an absolute tolerance (1e-8) shrinks below it on such a mesh."""
    pts = [lonlat_to_xyz(lon0 + cell * i, lat0 + cell * j) for j in range(n + 1) for i in range(n + 1)]
    faces = []
    for j in range(n):
        for i in range(n):
            a = j * (n + 1) + i
            faces.append((a, a + 1, a + n + 2, a + n + 1))
    faces = [orient_ccw(pts, f) for f in faces]
    return Mesh(name, pts, faces, False)


def polar_cap2(name="polarcap2", sgn=1.0):
    """pole node + ring of 5 at 89.8 degrees + ring of 5 at 89.0: nodes close to, but not on, the pole (0.2 degrees = 22 km: far outside
    any legitimate pole-snapping tolerance); 5 triangles + 5 quads."""
    pts = [(0.0, 0.0, sgn)]
    pts += [lonlat_to_xyz(-170.0 + 72.0 * i, sgn * 89.8) for i in range(5)]
    pts += [lonlat_to_xyz(-170.0 + 72.0 * i + 9.0, sgn * 89.0) for i in range(5)]
    faces = []
    for i in range(5):
        j = (i + 1) % 5
        faces.append((0, 1 + i, 1 + j))
        faces.append((1 + i, 6 + i, 6 + j, 1 + j))
    faces = [orient_ccw(pts, f) for f in faces]
    return Mesh(name, pts, faces, False, tags=("pole",))


_CACHE = {}
_EXTRA = {}


def extra():
    """meshes used by later checks only (not part of the C02/C03 catalogue)."""
    if not _EXTRA:
        for m in [sizes38(), cubesphere(3), single(4), single(6), single(8), am3(), eq_ring(), quad_patch("finequads"), quad_patch("finequads-am", lon0=179.997, lat0=-20.0), quad_patch("finequads-pole", n=3, cell=0.004, lon0=60.0, lat0=89.98), polar_cap2(), polar_cap2("polarcap2s", -1.0)]:
            _EXTRA[m.name] = m
    return _EXTRA


def catalog():
    """name -> Mesh (built once)."""
    if not _CACHE:
        ms = [
            tetrahedron(), cube(), octahedron(), prism(), cube_split(),
            pyramid(4), pyramid(5), pyramid(6), pyramid(7), pyramid(8),
            cubesphere(2), icosahedron(),
            mixed_partial(), antimeridian_strip(), pole_cap(), pole_node_fan(),
            single(3), single(5), two_isolated(), corner_touch(),
        ]
        for m in ms:
            _CACHE[m.name] = m
    return _CACHE


def get(name):
    c = catalog()
    return c[name] if name in c else extra()[name]


# --------------------------------------------------------------------------
# deviation enumerators (explorer I)
# --------------------------------------------------------------------------

def relabellings(n, full_upto=5):
    """node permutations: all n! for small n, else transpositions + reversal + rotation."""
    ident = tuple(range(n))
    yield ident
    if n <= full_upto:
        for p in itertools.permutations(range(n)):
            if p != ident:
                yield p
        return
    for i in range(n):
        for j in range(i + 1, n):
            p = list(ident)
            p[i], p[j] = p[j], p[i]
            yield tuple(p)
    yield tuple(reversed(ident))
    yield tuple((i + 1) % n for i in ident)


def face_orders(F, full_upto=4):
    ident = tuple(range(F))
    yield ident
    if F <= full_upto:
        for p in itertools.permutations(range(F)):
            if p != ident:
                yield p
        return
    for i in range(F):
        for j in range(i + 1, F):
            p = list(ident)
            p[i], p[j] = p[j], p[i]
            yield tuple(p)
    yield tuple(reversed(ident))


def start_corners(mesh):
    """(face, k) single-face rotations."""
    for fi, f in enumerate(mesh.faces):
        for k in range(1, len(f)):
            yield fi, k


def deviations(mesh, k=1, relabel_cap=None):
    """All index-level variants of ``mesh`` with at most ``k`` deviations among
    (node relabelling, face order, start corner); yields (descr, Mesh)."""
    yield {"dev": 0}, mesh
    if k < 1:
        return
    singles = []
    for p in itertools.islice(relabellings(mesh.n_node), 1, relabel_cap):
        singles.append(({"relabel": list(p)}, lambda m, p=p: m.relabel(p)))
    for o in itertools.islice(face_orders(mesh.n_face), 1, None):
        singles.append(({"forder": list(o)}, lambda m, o=o: m.reorder_faces(o)))
    for fi, kk in start_corners(mesh):
        singles.append(({"start": [fi, kk]}, lambda m, fi=fi, kk=kk: m.rotate_face(fi, kk)))
    for d, fn in singles:
        yield dict(d, dev=1), fn(mesh)
    if k < 2:
        return
    for (d1, f1), (d2, f2) in itertools.combinations(singles, 2):
        if set(d1) == set(d2):
            continue
        # start-corner indices refer to the face order *after* reordering: apply start first
        if "start" in d2 or "start" in d1:
            a, b = ((d1, f1), (d2, f2)) if "start" in d1 else ((d2, f2), (d1, f1))
        else:
            a, b = (d1, f1), (d2, f2)
        dd = dict(a[0])
        dd.update(b[0])
        dd["dev"] = 2
        yield dd, b[1](a[1](mesh))


def apply_deviation(mesh, d):
    m = mesh
    if "start" in d:
        m = m.rotate_face(*d["start"])
    if "relabel" in d:
        m = m.relabel(d["relabel"])
    if "forder" in d:
        m = m.reorder_faces(d["forder"])
    if "width" in d:
        pass
    return m
