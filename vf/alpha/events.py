"""Event vocabulary of explorer H: public read-only operations on a Grid, each
returning an *observation* (a flat dict name -> ndarray/scalar/str) that can be
compared by content.

Nothing here decides a verdict; see vf.core.hexplore.
"""

import numpy as np

ATTRS = [
    "n_node", "n_edge", "n_face", "n_max_face_nodes", "n_max_face_edges", "n_max_face_faces", "n_max_node_faces",
    "n_nodes_per_face", "node_lon", "node_lat", "node_x", "node_y", "node_z", "edge_lon", "edge_lat", "edge_x", "edge_y",
    "edge_z", "face_lon", "face_lat", "face_x", "face_y", "face_z", "face_node_connectivity", "edge_node_connectivity",
    "edge_node_z", "face_edge_connectivity", "face_face_connectivity", "edge_face_connectivity", "node_face_connectivity",
    "edge_node_distances", "edge_face_distances", "antimeridian_face_indices", "face_areas", "bounds", "face_jacobian",
    "hole_edge_indices",
]
NOT_IMPLEMENTED = ["node_node_connectivity", "edge_edge_connectivity", "node_edge_connectivity"]
INVENTORY = ["dims", "sizes", "coordinates", "connectivity", "descriptors"]

# attrs that hold per-variable helper objects are observed through digests
_SKIP_DS_VARS_EXODUS = ("time_whole", "qa_records", "coor_names", "eb_names", "eb_status", "eb_prop1")


def _attrs_obs(prefix, attrs, out):
    from vf.core.state import digest

    for k in sorted(attrs):
        v = attrs[k]
        if isinstance(v, np.ndarray):
            out["%s@%s" % (prefix, k)] = np.asarray(v)
        elif isinstance(v, (str, int, float, bool, np.generic)):
            out["%s@%s" % (prefix, k)] = v
        elif type(v).__module__.startswith("pandas") and hasattr(v, "left") and hasattr(v, "right"):
            out["%s@%s.left" % (prefix, k)] = np.asarray(v.left, dtype=float)
            out["%s@%s.right" % (prefix, k)] = np.asarray(v.right, dtype=float)
            out["%s@%s.closed" % (prefix, k)] = str(v.closed)
        elif type(v).__module__.startswith("pandas") and hasattr(v, "columns"):
            for c in v.columns:
                out["%s@%s[%s]" % (prefix, k, c)] = np.asarray(v[c].values)
            if hasattr(v.index, "left"):
                out["%s@%s.index.left" % (prefix, k)] = np.asarray(v.index.left, dtype=float)
                out["%s@%s.index.right" % (prefix, k)] = np.asarray(v.index.right, dtype=float)
        else:
            out["%s@%s" % (prefix, k)] = "digest:" + digest(v)


def obs_dataarray(name, da, out, attrs=True):
    out[name] = np.asarray(da.values)
    out[name + "#dims"] = ",".join(map(str, da.dims))
    if attrs:
        _attrs_obs(name, dict(da.attrs), out)


def obs_dataset(ds, out, prefix="", skip=()):
    for v in sorted(map(str, ds.variables)):
        if v in skip:
            continue
        obs_dataarray(prefix + v, ds[v], out)
    _attrs_obs(prefix + "<global>", {k: v for k, v in ds.attrs.items() if k not in ("api_version", "version", "floating_point_word_size", "file_size", "title")}, out)
    out[prefix + "<sizes>"] = ",".join("%s=%d" % (k, v) for k, v in sorted(ds.sizes.items()) if not (skip and k in ("len_string", "len_line", "four", "num_qa_rec", "time_step")))


def obs_grid(g, out, prefix=""):
    """what a derived Grid (subset / dual / copy) *is*: its faces by corner position, in order, plus the
    source indices it records.  Which derived variables it happens to carry is not part of the value
    (C09 checks that everything derivable on it is right)."""
    out[prefix + "spec"] = str(g.source_grid_spec)
    ds = g._ds
    fn = np.asarray(ds["face_node_connectivity"].values)
    if fn.ndim == 1:
        fn = fn[None, :]
    lon = np.asarray(ds["node_lon"].values, dtype=float)
    lat = np.asarray(ds["node_lat"].values, dtype=float)
    fill = fn < 0
    idx = np.where(fill, 0, fn)
    out[prefix + "corner_lon"] = np.where(fill, np.nan, lon[idx])
    out[prefix + "corner_lat"] = np.where(fill, np.nan, lat[idx])
    out[prefix + "n_node"] = int(ds.sizes["n_node"])
    for k in ("subgrid_face_indices", "subgrid_node_indices", "subgrid_edge_indices"):
        if k in ds:
            out[prefix + k] = np.asarray(ds[k].values)


def obs_gdf(gdf, out, prefix=""):
    from vf.core.state import digest

    out[prefix + "type"] = type(gdf).__module__.split(".")[0]
    out[prefix + "len"] = len(gdf)
    out[prefix + "cols"] = ",".join(map(str, gdf.columns))
    geoms = gdf["geometry"]
    coords = []
    tname = type(geoms.dtype).__module__
    if "spatialpandas" in tname:
        arr = geoms.values
        for i in range(len(arr)):
            g = arr[i]
            coords.append(np.asarray(g.data.as_py() if hasattr(g.data, "as_py") else list(g.data), dtype=object))
        out[prefix + "geom"] = "digest:" + digest([c.tolist() for c in coords])
        flat = []
        for c in coords:
            _flatten(c.tolist(), flat)
        out[prefix + "geomvals"] = np.asarray(flat, dtype=float)
    else:
        flat = []
        for geom in geoms.values:
            if geom is None:
                flat.append(np.nan)
                continue
            for poly in getattr(geom, "geoms", [geom]):
                flat.extend(np.asarray(poly.exterior.coords).ravel().tolist())
                flat.append(np.inf)
        out[prefix + "geomvals"] = np.asarray(flat, dtype=float)
    for c in gdf.columns:
        if c != "geometry":
            out[prefix + "col:" + str(c)] = np.asarray(gdf[c].values)


def _flatten(x, out):
    if isinstance(x, (list, tuple)):
        for y in x:
            _flatten(y, out)
        out.append(np.inf)
    else:
        out.append(float(x) if x is not None else np.nan)


def obs_collection(pc, out, prefix=""):
    out[prefix + "type"] = type(pc).__name__
    if hasattr(pc, "get_segments") and "Line" in type(pc).__name__:
        segs = pc.get_segments()
        out[prefix + "n"] = len(segs)
        out[prefix + "verts"] = np.concatenate([np.asarray(s, dtype=float).ravel() for s in segs]) if len(segs) else np.zeros(0)
        out[prefix + "lens"] = np.asarray([len(s) for s in segs])
    else:
        paths = pc.get_paths()
        out[prefix + "n"] = len(paths)
        out[prefix + "verts"] = np.concatenate([np.asarray(p.vertices, dtype=float).ravel() for p in paths]) if len(paths) else np.zeros(0)
        out[prefix + "lens"] = np.asarray([len(p.vertices) for p in paths])
    arr = pc.get_array()
    if arr is not None:
        out[prefix + "array"] = np.ma.filled(np.ma.asarray(arr).astype(float), np.nan)


def _proj(name):
    import cartopy.crs as ccrs

    return {None: None, "robinson": ccrs.Robinson(), "ortho": ccrs.Orthographic(central_longitude=20.0, central_latitude=30.0), "robinson180": ccrs.Robinson(central_longitude=180.0), "mollweide-120": ccrs.Mollweide(central_longitude=-120.0), "robinson90": ccrs.Robinson(central_longitude=90.0)}[name]


QUERY_LL = [(31.0, 12.0), (-179.0, -3.0), (10.0, 88.0)]


def _tree_obs(tree, system, out):
    """fixed queries: the tree's *answers* are the observation."""
    if system == "spherical":
        pts = np.array(QUERY_LL, dtype=float)
    else:
        from vf.oracle import sph

        pts = sph.ll2xyz([p[0] for p in QUERY_LL], [p[1] for p in QUERY_LL])
    n = int(tree._n_elements)
    for k in sorted({1, min(2, n), n}):
        d, i = tree.query(pts, k=k)
        out["q%d:d" % k] = np.asarray(d, dtype=float)
        out["q%d:i" % k] = np.asarray(i)
    d, i = tree.query(pts[0], k=1)
    out["q1single:d"] = np.asarray(d, dtype=float)
    out["q1single:i"] = np.asarray(i)
    r = 40.0 if system == "spherical" else 0.7
    try:
        dd, ii = tree.query_radius(pts[0], r=r, return_distance=True)
        order = np.argsort(np.asarray(ii).ravel(), kind="stable")
        out["qr:i"] = np.asarray(ii).ravel()[order]
        out["qr:d"] = np.asarray(dd, dtype=float).ravel()[order]
    except Exception as e:  # same exception is expected after any history
        out["qr"] = "raises:" + type(e).__name__


def build_events(level="full"):
    """name -> (kind, fn(grid) -> observation dict).  kinds: value | export | inventory"""
    ev = {}

    def attr(name):
        def f(g):
            x = getattr(g, name)
            out = {}
            if hasattr(x, "dims") and hasattr(x, "values"):
                obs_dataarray(name, x, out)
            else:
                out[name] = np.asarray(x) if not isinstance(x, (int, float, str)) else x
            return out

        return f

    for a in ATTRS + NOT_IMPLEMENTED:
        ev["attr:" + a] = ("value", attr(a))
    for a in INVENTORY:
        ev["inv:" + a] = ("inventory", lambda g, a=a: {a: sorted(getattr(g, a).items()) if a == "sizes" else sorted(getattr(g, a))})
    ev["inv:repr"] = ("inventory", lambda g: {"repr": repr(g).splitlines()})
    ev["attrs"] = ("value", lambda g: (lambda o: (_attrs_obs("attrs", dict(g.attrs), o), o)[1])({}))

    def areas(*args, **kw):
        def f(g):
            a, j = g.compute_face_areas(*args, **kw)
            return {"areas": np.asarray(a, dtype=float), "jacobian": np.asarray(j, dtype=float)}

        return f

    ev["areas()"] = ("value", areas())
    ev["areas(gaussian,5)"] = ("value", areas("gaussian", 5))
    ev["areas(latlon=False)"] = ("value", areas(latlon=False))
    ev["total_area()"] = ("value", lambda g: {"total": float(g.calculate_total_face_area())})
    ev["total_area(gaussian,3)"] = ("value", lambda g: {"total": float(g.calculate_total_face_area("gaussian", 3))})
    # the other family at the DEFAULT order (4): an argument vector that coincides with the cached default in one component only
    ev["total_area(gaussian,4)"] = ("value", lambda g: {"total": float(g.calculate_total_face_area("gaussian", 4))})
    ev["areas(gaussian,4)"] = ("value", areas("gaussian", 4))

    def toxr(fmt):
        def f(g):
            out = {}
            obs_dataset(g.to_xarray(fmt), out, skip=_SKIP_DS_VARS_EXODUS if fmt == "exodus" else ())
            return out

        return f

    for fmt in ("ugrid", "exodus", "scrip"):
        ev["to_xarray(%s)" % fmt] = ("export" if fmt == "ugrid" else "value", toxr(fmt))

    def gdf(pe, engine, proj):
        def f(g):
            out = {}
            obs_gdf(g.to_geodataframe(periodic_elements=pe, engine=engine, projection=_proj(proj)), out)
            return out

        return f

    for pe in ("exclude", "split", "ignore"):
        for engine in ("spatialpandas", "geopandas"):
            for proj in (None, "robinson"):
                if proj and pe == "split":
                    continue
                if level != "full" and (engine == "geopandas" and proj):
                    continue
                ev["gdf(%s,%s,%s)" % (pe, engine, proj)] = ("value", gdf(pe, engine, proj))

    # projections whose central longitude moves the antimeridian
    ev["gdf(exclude,spatialpandas,robinson180)"] = ("value", gdf("exclude", "spatialpandas", "robinson180"))
    ev["gdf(ignore,geopandas,robinson180)"] = ("value", gdf("ignore", "geopandas", "robinson180"))

    def coll(kind, pe, proj):
        def f(g):
            out = {}
            fn = g.to_polycollection if kind == "poly" else g.to_linecollection
            obs_collection(fn(periodic_elements=pe, projection=_proj(proj)), out)
            return out

        return f

    for kind in ("poly", "line"):
        for pe in ("exclude", "split", "ignore"):
            for proj in (None, "robinson"):
                if proj and pe == "split":
                    continue
                ev["%s(%s,%s)" % (kind, pe, proj)] = ("value", coll(kind, pe, proj))

    ev["poly(exclude,robinson180)"] = ("value", coll("poly", "exclude", "robinson180"))
    ev["line(exclude,robinson180)"] = ("value", coll("line", "exclude", "robinson180"))

    def tree(which, coords, system, **kw):
        def f(g):
            t = (g.get_ball_tree if which == "ball" else g.get_kd_tree)(coordinates=coords, coordinate_system=system, **kw)
            out = {}
            _tree_obs(t, system, out)
            return out

        return f

    for which in ("ball", "kd"):
        for coords in ("nodes", "face centers", "edge centers"):
            for system in ("spherical", "cartesian"):
                kw = {}
                if which == "ball" and system == "cartesian":
                    kw["distance_metric"] = "euclidean"
                ev["%s(%s,%s)" % (which, coords, system)] = ("value", tree(which, coords, system, **kw))
    ev["kd(nodes,cartesian,chebyshev)"] = ("value", tree("kd", "nodes", "cartesian", distance_metric="chebyshev"))
    ev["ball(nodes,spherical,reconstruct)"] = ("value", tree("ball", "nodes", "spherical", reconstruct=True))

    ev["chunk()"] = ("value", lambda g: (g.chunk(), {"chunk": "done"})[1])

    def sub(fn):
        def f(g):
            out = {}
            obs_grid(fn(g), out)
            return out

        return f

    ev["isel(n_face=[0])"] = ("value", sub(lambda g: g.isel(n_face=[0])))
    ev["isel(n_face=last2)"] = ("value", sub(lambda g: g.isel(n_face=[g.n_face - 1, max(0, g.n_face - 2)])))
    ev["isel(n_node=[1])"] = ("value", sub(lambda g: g.isel(n_node=[1])))
    ev["isel(n_edge=[0,2])"] = ("value", sub(lambda g: g.isel(n_edge=[0, 2])))
    ev["bbox(nodes)"] = ("value", sub(lambda g: g.subset.bounding_box((-180, 180), (-90, 90), element="nodes")))
    ev["bbox(faces)"] = ("value", sub(lambda g: g.subset.bounding_box((-180, 180), (-90, 90), element="face centers")))
    ev["bcircle(nodes)"] = ("value", sub(lambda g: g.subset.bounding_circle((31.0, 12.0), 60.0, element="nodes")))
    ev["bcircle(edges)"] = ("value", sub(lambda g: g.subset.bounding_circle((31.0, 12.0), 60.0, element="edge centers")))
    ev["nn(faces,2)"] = ("value", sub(lambda g: g.subset.nearest_neighbor((31.0, 12.0), k=min(2, g.n_face), element="face centers")))
    ev["nn(nodes,1)"] = ("value", sub(lambda g: g.subset.nearest_neighbor((-170.0, 5.0), k=1, element="nodes")))
    ev["dual()"] = ("value", sub(lambda g: g.get_dual()))
    ev["copy()"] = ("value", sub(lambda g: g.copy()))
    ev["xsec(lat)"] = ("value", sub(lambda g: g.cross_section.constant_latitude(float(np.sort(g.node_lat.values)[g.n_node // 2]) + 0.01)))
    ev["faces_at_lat"] = ("value", lambda g: {"faces": np.asarray(g.get_faces_at_constant_latitude(float(np.sort(g.node_lat.values)[g.n_node // 2]) + 0.01))})
    ev["edges_at_lat"] = ("value", lambda g: {"edges": np.atleast_1d(np.asarray(g.get_edges_at_constant_latitude(float(np.sort(g.node_lat.values)[g.n_node // 2]) + 0.01)))})

    def validate(g):
        import contextlib
        import io

        with contextlib.redirect_stdout(io.StringIO()):
            return {"validate": bool(g.validate())}

    ev["validate()"] = ("value", validate)

    # computations on data attached to the grid (they read the grid's tables and caches)
    def data_ev(elem, fn):
        def f(g):
            import uxarray as ux

            n = {"n_face": g.n_face, "n_node": g.n_node}[elem]
            vals = np.sin(1.0 + 2.3 * np.arange(n)) * 3.0 + 0.01 * np.arange(n)
            da = ux.UxDataArray(vals, dims=[elem], uxgrid=g, name="fld")
            r = fn(da, g)
            out = {}
            if hasattr(r, "values") and hasattr(r, "dims"):
                out["values"] = np.asarray(r.values, dtype=float)
                out["dims"] = ",".join(map(str, r.dims))
            elif hasattr(r, "columns"):
                obs_gdf(r, out)
            else:
                obs_collection(r, out)
            return out

        return f

    ev["data:gradient"] = ("value", data_ev("n_face", lambda da, g: da.gradient()))
    ev["data:difference(face)"] = ("value", data_ev("n_face", lambda da, g: da.difference("edge")))
    ev["data:difference(node)"] = ("value", data_ev("n_node", lambda da, g: da.difference("edge")))
    ev["data:integrate"] = ("value", data_ev("n_face", lambda da, g: da.integrate()))
    ev["data:integrate(gaussian,3)"] = ("value", data_ev("n_face", lambda da, g: da.integrate("gaussian", 3)))
    ev["data:topological_mean(face)"] = ("value", data_ev("n_node", lambda da, g: da.topological_mean(destination="face")))
    ev["data:topological_max(edge)"] = ("value", data_ev("n_node", lambda da, g: da.topological_max(destination="edge")))
    ev["data:nn_remap(self,nodes)"] = ("value", data_ev("n_face", lambda da, g: da.remap.nearest_neighbor(g, remap_to="nodes")))
    ev["data:idw_remap(self,edges)"] = ("value", data_ev("n_node", lambda da, g: da.remap.inverse_distance_weighted(g, remap_to="edge centers", k=2)))
    ev["data:to_geodataframe"] = ("value", data_ev("n_face", lambda da, g: da.to_geodataframe()))
    ev["data:to_polycollection"] = ("value", data_ev("n_face", lambda da, g: da.to_polycollection()))
    ev["data:isel(n_face=[0])"] = ("value", data_ev("n_face", lambda da, g: da.isel(n_face=[0])))
    ev["data:subset.nn"] = ("value", data_ev("n_node", lambda da, g: da.subset.nearest_neighbor((31.0, 12.0), k=2, element="nodes")))
    ev["getitem(face_node)"] = ("value", lambda g: (lambda o: (obs_dataarray("x", g["face_node_connectivity"], o), o)[1])({}))
    return ev


def same(a, b, tol=1e-12):
    """compare two observation dicts by content; returns list of differing keys (with a reason)."""
    diffs = []
    for k in sorted(set(a) | set(b)):
        if k not in a:
            diffs.append("%s: missing (expected present)" % k)
            continue
        if k not in b:
            diffs.append("%s: unexpected" % k)
            continue
        r = same_value(a[k], b[k], tol)
        if r:
            diffs.append("%s: %s" % (k, r))
    return diffs


def same_value(x, y, tol=1e-12):
    if isinstance(x, np.ndarray) or isinstance(y, np.ndarray):
        x, y = np.asarray(x), np.asarray(y)
        if x.dtype != y.dtype:
            return "dtype %s vs %s" % (x.dtype, y.dtype)
        if x.shape != y.shape:
            return "shape %s vs %s" % (x.shape, y.shape)
        if x.dtype.kind in "fc":
            ok = np.isclose(x, y, rtol=0, atol=tol, equal_nan=True) | ((x == y))
            if not np.all(ok):
                i = tuple(int(t) for t in np.argwhere(~ok)[0])
                return "value at %s: %r vs %r (%d of %d differ)" % (i, x[i], y[i], int((~ok).sum()), ok.size)
            return None
        if x.dtype == object:
            return None if repr(x.tolist()) == repr(y.tolist()) else "object array differs"
        if not np.array_equal(x, y):
            i = tuple(int(t) for t in np.argwhere(x != y)[0])
            return "value at %s: %r vs %r (%d of %d differ)" % (i, x[i], y[i], int((x != y).sum()), x.size)
        return None
    if isinstance(x, float) and isinstance(y, float):
        return None if (abs(x - y) <= tol or (x != x and y != y)) else "%r vs %r" % (x, y)
    if type(x) is not type(y) and not (isinstance(x, (int, np.integer)) and isinstance(y, (int, np.integer))):
        return "type %s vs %s" % (type(x).__name__, type(y).__name__)
    return None if x == y else "%r vs %r" % (x, y)
