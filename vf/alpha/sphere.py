"""Exact spherical geometry on rational unit vectors (explorer G).

Points are triples of ``fractions.Fraction`` of exactly unit length; great
circles are given by rational orthonormal frames (from integer quaternions);
points on a circle are cos(t) u + sin(t) v with rational (cos t, sin t).
Every predicate below is decided by exact sign computations; margins (angular
distance from the decision boundary) are evaluated in floating point, which is
harmless because they are only compared with thresholds >= 1e-7.
"""

import itertools
import math
from fractions import Fraction as Fr


def stereo(s, t):
    """inverse stereographic image of rational (s, t): exactly unit length."""
    s, t = Fr(s), Fr(t)
    d = 1 + s * s + t * t
    return (2 * s / d, 2 * t / d, (1 - s * s - t * t) / d)


def neg(p):
    return (-p[0], -p[1], -p[2])


def dot(a, b):
    return a[0] * b[0] + a[1] * b[1] + a[2] * b[2]


def cross(a, b):
    return (a[1] * b[2] - a[2] * b[1], a[2] * b[0] - a[0] * b[2], a[0] * b[1] - a[1] * b[0])


def sub(a, b):
    return (a[0] - b[0], a[1] - b[1], a[2] - b[2])


def scale(a, k):
    return (a[0] * k, a[1] * k, a[2] * k)


def add(a, b):
    return (a[0] + b[0], a[1] + b[1], a[2] + b[2])


def fl(p):
    return (float(p[0]), float(p[1]), float(p[2]))


def norm_f(p):
    return math.sqrt(float(dot(p, p)))


def frame(q):
    """rational orthonormal frame (u, v, w) = columns of the rotation of the integer quaternion q=(a,b,c,d)."""
    a, b, c, d = (Fr(x) for x in q)
    n = a * a + b * b + c * c + d * d
    R = [
        [(a * a + b * b - c * c - d * d) / n, 2 * (b * c - a * d) / n, 2 * (b * d + a * c) / n],
        [2 * (b * c + a * d) / n, (a * a - b * b + c * c - d * d) / n, 2 * (c * d - a * b) / n],
        [2 * (b * d - a * c) / n, 2 * (c * d + a * b) / n, (a * a - b * b - c * c + d * d) / n],
    ]
    u = (R[0][0], R[1][0], R[2][0])
    v = (R[0][1], R[1][1], R[2][1])
    w = (R[0][2], R[1][2], R[2][2])
    return u, v, w


def rat_angle(m):
    """(cos t, sin t) rational for tan(t/2) = m"""
    m = Fr(m)
    return ((1 - m * m) / (1 + m * m), 2 * m / (1 + m * m))


def on_circle(fr, cs):
    u, v, w = fr
    return add(scale(u, cs[0]), scale(v, cs[1]))


def angle_f(a, b):
    """angle between rational unit vectors, float (atan2 form)"""
    c = cross(a, b)
    return math.atan2(norm_f(c), float(dot(a, b)))


# ---------------------------------------------------------------------------- exact predicates
def arc_normal(a, b):
    """a x b (not normalised); the minor arc from a to b turns counter-clockwise about it"""
    return cross(a, b)


def on_minor_arc(p, a, b):
    """p (on the great circle of a,b) lies on the closed minor arc a..b.  exact."""
    n = cross(a, b)
    return dot(cross(a, p), n) >= 0 and dot(cross(p, b), n) >= 0


def arc_margin(p, a, b):
    """signed angular margin (float, rad): > 0 inside the open arc by that much, < 0 outside;
    measured to the nearest endpoint along the circle."""
    inside = on_minor_arc(p, a, b)
    d = min(angle_f(p, a), angle_f(p, b))
    return d if inside else -d


def plane_distance(p, a, b):
    """angular distance (float, rad) of p from the great circle through a, b"""
    n = cross(a, b)
    s = float(dot(n, p)) / (norm_f(n) * norm_f(p))
    return math.asin(max(-1.0, min(1.0, abs(s))))


def crossing(a, b, c, d):
    """arcs a-b and c-d on different great circles.  Returns (crosses, point (rational, unnormalised) or None, margin)
    margin = smallest angular distance (float) of the candidate points from the four endpoints-decisions."""
    n1, n2 = cross(a, b), cross(c, d)
    x = cross(n1, n2)
    if x == (0, 0, 0):
        return None, None, 0.0
    best = None
    margins = []
    for cand in (x, neg(x)):
        i1 = _inside_signed(cand, a, b, n1)
        i2 = _inside_signed(cand, c, d, n2)
        margins += [abs(i1), abs(i2)]
        if i1 > 0 and i2 > 0:
            best = cand
    return best is not None, best, min(margins)


def _inside_signed(x, a, b, n):
    """signed angular margin of the (unnormalised, exactly on-plane) direction x w.r.t. the minor arc a..b"""
    nx = norm_f(x)
    s1 = float(dot(cross(a, x), n))
    s2 = float(dot(cross(x, b), n))
    nn = norm_f(n)
    # sin of the angle from a to x and from x to b (signed)
    m1 = math.asin(max(-1.0, min(1.0, s1 / (nn * nx * 1.0)))) if True else 0
    m2 = math.asin(max(-1.0, min(1.0, s2 / (nn * nx * 1.0))))
    if dot(cross(a, x), n) >= 0 and dot(cross(x, b), n) >= 0:
        # inside: margin = distance to nearer endpoint
        xa = math.atan2(abs(s1) / (nn * nx), float(dot(a, x)) / nx)
        xb = math.atan2(abs(s2) / (nn * nx), float(dot(x, b)) / nx)
        return min(xa, xb)
    xa = math.atan2(abs(s1) / (nn * nx), float(dot(a, x)) / nx)
    xb = math.atan2(abs(s2) / (nn * nx), float(dot(x, b)) / nx)
    return -min(xa, xb)


def extreme_lat(a, b, kind):
    """exact-decision extreme latitude (rad, float) over the closed minor arc a..b; also returns the margin (rad)
    of the interior-extremum decision."""
    n = cross(a, b)
    nn = dot(n, n)
    z = (Fr(0), Fr(0), Fr(1))
    # projection of +-z onto the plane: t = z*|n|^2 - (z.n) n   (rational, unnormalised)
    t = sub(scale(z, nn), scale(n, dot(z, n)))
    if kind == "min":
        t = neg(t)
    za, zb = float(a[2]), float(b[2])
    end = max(za, zb) if kind == "max" else min(za, zb)
    lat_end = math.asin(max(-1.0, min(1.0, end)))
    if t == (0, 0, 0):
        # circle is the equator: every point has latitude 0
        return 0.0, math.pi
    m = _inside_signed(t, a, b, n)
    if m > 0:
        nz = float(n[2]) / math.sqrt(float(nn))
        lat = math.asin(math.sqrt(max(0.0, 1.0 - nz * nz)))
        return (lat if kind == "max" else -lat), m
    return lat_end, -m


# ---------------------------------------------------------------------------- lattices
QUATS = [
    (1, 0, 0, 0),            # identity: circle = equator
    (1, 1, 0, 0),            # 90 deg about x: circle through the poles (meridian plane x=0..)
    (1, 0, 1, 0),            # 90 deg about y: meridian plane
    (1, 1, 1, 1), (2, 1, 0, 0), (2, 0, 1, 0), (3, 1, 1, 0), (3, 2, 1, 1), (2, 1, 2, 1), (5, 1, 2, 3), (4, 3, 1, 2), (7, 2, 3, 1),
    (1, 2, 0, 0), (1, 0, 2, 0), (3, 0, 0, 1), (5, 3, 1, 1), (6, 1, 1, 2), (2, 3, 1, 0), (1, 3, 2, 1), (4, 1, 0, 3),
]
# tan(t/2) menu: angles spread over the whole circle, odd denominators so that doubles are 'generic'
TANS = [Fr(0), Fr(1, 7), Fr(3, 11), Fr(5, 13), Fr(9, 13), Fr(1), Fr(15, 11), Fr(27, 11), Fr(-1, 7), Fr(-3, 11), Fr(-9, 13), Fr(-1), Fr(-15, 11), Fr(-27, 11), Fr(7, 1), Fr(-7, 1)]


def frames(n=None):
    fs = [frame(q) for q in QUATS]
    return fs if n is None else fs[:n]


def circle_points(fr, tans=TANS):
    return [on_circle(fr, rat_angle(m)) for m in tans]


def arcs_on(fr, tans=TANS, min_len=1e-3, max_len=math.pi - 1e-3):
    """all ordered pairs of circle points forming a minor arc of length in (min_len, max_len)"""
    pts = circle_points(fr, tans)
    out = []
    for i, j in itertools.permutations(range(len(pts)), 2):
        a, b = pts[i], pts[j]
        L = angle_f(a, b)
        if min_len < L < max_len:
            out.append((a, b))
    return out


def lattice_points(den=(7, 11), rng=3):
    """off-circle query points: stereographic images of a small rational grid (+ poles and axis points)"""
    pts = []
    for d in den:
        for i in range(-rng * d, rng * d + 1, max(1, d // 2 + 1)):
            for j in range(-rng * d, rng * d + 1, max(1, d // 2 + 1)):
                pts.append(stereo(Fr(i, d), Fr(j, d)))
    one, zero = Fr(1), Fr(0)
    pts += [(zero, zero, one), (zero, zero, -one), (one, zero, zero), (-one, zero, zero), (zero, one, zero), (zero, -one, zero)]
    return pts


def rot_z(cs):
    """exact rotation about the polar axis by the rational angle (cos, sin)"""
    c, s = cs

    def f(p):
        return (c * p[0] - s * p[1], s * p[0] + c * p[1], p[2])

    return f
