"""Harness-side *writers* for every source format and dialect (C01, and sources for other checks).

Each writer follows the format's public conventions and builds an in-memory ``xarray.Dataset`` (or a file) from an
abstract mesh.  It returns ``(source, expect)`` where ``expect`` says which faces (as corner positions, in order)
the source describes and which explicitly supplied tables/centres/areas it contains (as position-keyed sets, so
index bases are irrelevant).  Nothing here imports uxarray.
"""

import itertools
import json
import math

import numpy as np

from ..oracle import conn, sph

INT_FILL = np.iinfo(np.intp).min


def _ll(m, lon360=False):
    lon, lat = m.lonlat()
    if lon360:
        lon = lon % 360.0
    return lon, lat


def _expect(m, **extra):
    lon, lat = m.lonlat()
    P = sph.ll2xyz(lon, lat)
    e = {"faces": [P[list(f)] for f in m.faces], "ordered": True, "orient": "same"}
    e.update(extra)
    return e


def _edges(m, order="sorted"):
    E = conn.edge_model(m.faces)
    keys = sorted(E, key=lambda k: sorted(k))
    if order == "reversed":
        keys = keys[::-1]
    return keys, E


# --------------------------------------------------------------------------- UGRID
UGRID_AXES = [
    ("start_index", [0, 1, "absent"]),
    ("fill", [-1, 999999, "INT_FILL", "nan", "none"]),
    ("dtype", ["int64", "int32", "float64"]),
    ("names", ["standard", "exotic"]),
    ("lon", ["pm180", "0-360"]),
    ("tables", ["none", "edge_node", "face_edge+edge_face", "centres", "centres-lon360"]),
]


def ugrid(m, start_index=0, fill=-1, dtype="int64", names="standard", lon="pm180", tables="none"):
    import xarray as xr

    lo, la = _ll(m, lon == "0-360")
    nm = {"mesh": "Mesh2", "nx": "Mesh2_node_x", "ny": "Mesh2_node_y", "fn": "Mesh2_face_nodes", "nd": "nMesh2_node", "fd": "nMesh2_face", "md": "nMaxMesh2_face_nodes",
          "en": "Mesh2_edge_nodes", "fe": "Mesh2_face_edges", "ef": "Mesh2_edge_faces", "ed": "nMesh2_edge", "fx": "Mesh2_face_x", "fy": "Mesh2_face_y", "ex": "Mesh2_edge_x", "ey": "Mesh2_edge_y"}
    if names == "exotic":
        nm = {k: "zz_%s_%d" % (k, i) for i, (k, v) in enumerate(sorted(nm.items()))}
    base = 1 if start_index == 1 else 0
    uniform = len({len(f) for f in m.faces}) == 1
    if fill == "none" and not uniform:
        return None
    if fill == "nan" and dtype != "float64":
        return None
    if dtype == "float64" and fill == "INT_FILL":
        return None
    fv = {"INT_FILL": INT_FILL, "nan": np.nan, "none": None}.get(fill, fill)
    if dtype == "int32" and fv is not None and not (isinstance(fv, float)) and abs(fv) > 2 ** 31 - 1:
        return None
    W = m.width

    def table(rows, width, dt=dtype):
        t = np.full((len(rows), width), 0, dtype=np.float64)
        msk = np.ones((len(rows), width), dtype=bool)
        for i, r in enumerate(rows):
            t[i, : len(r)] = np.asarray(r, dtype=float) + base
            msk[i, : len(r)] = False
        if fv is not None:
            t[msk] = fv
        if dt != "float64":
            t = np.where(msk, 0 if fv is None else fv, t).astype(dt)
        return t

    def cattrs(role):
        a = {"cf_role": role}
        if fv is not None:
            a["_FillValue"] = np.array(fv, dtype=dtype)[()] if dtype != "float64" else float(fv)
        if start_index != "absent":
            a["start_index"] = np.array(base, dtype="int32" if dtype != "int64" else "int64")[()]
        return a

    topo = {"cf_role": "mesh_topology", "topology_dimension": 2, "node_coordinates": "%s %s" % (nm["nx"], nm["ny"]), "face_node_connectivity": nm["fn"], "face_dimension": nm["fd"]}
    ds = xr.Dataset()
    ds[nm["nx"]] = ((nm["nd"],), lo.copy(), {"standard_name": "longitude", "units": "degrees_east"})
    ds[nm["ny"]] = ((nm["nd"],), la.copy(), {"standard_name": "latitude", "units": "degrees_north"})
    ds[nm["fn"]] = ((nm["fd"], nm["md"]), table(m.faces, W), cattrs("face_node_connectivity"))
    exp = _expect(m)
    P = sph.ll2xyz(*m.lonlat())
    if tables == "face_edge+edge_face" and fv is None and any(len(v) == 1 for v in conn.edge_model(m.faces).values()):
        return None  # boundary edges need a fill value in edge_face: not well-formed without one
    if tables in ("edge_node", "face_edge+edge_face"):
        keys, E = _edges(m, "reversed")
        en = [sorted(k) for k in keys]
        ds[nm["en"]] = ((nm["ed"], "Two"), table(en, 2), cattrs("edge_node_connectivity"))
        topo["edge_node_connectivity"] = nm["en"]
        topo["edge_dimension"] = nm["ed"]
        exp["edge_node"] = [frozenset(k) for k in keys]
        if tables == "face_edge+edge_face":
            idx = {k: i for i, k in enumerate(keys)}
            fe = [[idx[frozenset((f[j], f[(j + 1) % len(f)]))] for j in range(len(f))] for f in m.faces]
            ds[nm["fe"]] = ((nm["fd"], nm["md"]), table(fe, W), cattrs("face_edge_connectivity"))
            topo["face_edge_connectivity"] = nm["fe"]
            ef = [[fi for fi, _ in E[k]] for k in keys]
            ds[nm["ef"]] = ((nm["ed"], "Two"), table(ef, 2), cattrs("edge_face_connectivity"))
            topo["edge_face_connectivity"] = nm["ef"]
            exp["face_edge"] = fe
            exp["edge_face"] = [sorted(x) for x in ef]
    if tables in ("centres", "centres-lon360"):  # centres-lon360: centre longitudes in 0..360 whatever the node convention is
        fc = np.array([sph.unit(0.7 * sph.unit(P[list(f)].mean(axis=0)) + 0.3 * P[f[0]]) for f in m.faces])
        flon, flat = sph.xyz2ll(fc)
        if lon == "0-360" or tables == "centres-lon360":
            flon = flon % 360.0
        ds[nm["fx"]] = ((nm["fd"],), flon)
        ds[nm["fy"]] = ((nm["fd"],), flat)
        topo["face_coordinates"] = "%s %s" % (nm["fx"], nm["fy"])
        exp["face_centres"] = fc
    ds[nm["mesh"]] = ((), np.int32(0), topo)
    ds.attrs = {"Conventions": "UGRID-1.0"}
    return ds, exp


# --------------------------------------------------------------------------- MPAS
MPAS_AXES = [("padding", ["zeros", "repeat-last", "junk"]), ("optional", ["all", "minimal"]), ("coords", ["both", "lonlat", "xyz"]), ("dual", [False, True]), ("dtype", ["int32", "int64"])]


def mpas(m, padding="zeros", optional="all", coords="both", dual=False, dtype="int32"):
    """primal: MPAS cells = faces of m, vertices = nodes of m.  dual: the *uxarray dual reading* must yield m, i.e.
    MPAS cells = nodes of m and MPAS vertices = faces of m (cellsOnVertex rows = faces of m)."""
    import xarray as xr

    lon, lat = m.lonlat()
    P = sph.ll2xyz(lon, lat)
    FC = np.array([sph.unit(P[list(f)].mean(axis=0)) for f in m.faces])
    ds = xr.Dataset()
    node_faces = {}
    for fi, f in enumerate(m.faces):
        for n in f:
            node_faces.setdefault(n, []).append(fi)

    def pad(rows, width, how, junk_max):
        t = np.zeros((len(rows), width), dtype=np.int32)
        for i, r in enumerate(rows):
            k = len(r)
            t[i, :k] = np.asarray(r) + 1
            if how == "repeat-last" and k:
                t[i, k:] = r[-1] + 1
            elif how == "junk":
                t[i, k:] = [(7 * i + 3 * j) % junk_max + 1 for j in range(width - k)]
        return t

    keys, E = _edges(m)
    if not dual:
        rows, W = m.faces, m.width
        ds["verticesOnCell"] = (("nCells", "maxEdges"), pad(rows, W, padding, m.n_node))
        ds["nEdgesOnCell"] = (("nCells",), np.array([len(f) for f in rows], dtype=np.int32))
        vd = max(len(v) for v in node_faces.values()) if node_faces else 1
        ds["cellsOnVertex"] = (("nVertices", "vertexDegree"), pad([node_faces.get(n, []) for n in range(m.n_node)], vd, "zeros", 1))
        cell_xyz, vert_xyz = FC, P
        exp = _expect(m)
        if optional == "all":
            ds["verticesOnEdge"] = (("nEdges", "TWO"), pad([sorted(k) for k in keys], 2, "zeros", 1))
            idx = {k: i for i, k in enumerate(keys)}
            fe = [[idx[frozenset((f[j], f[(j + 1) % len(f)]))] for j in range(len(f))] for f in m.faces]
            ds["edgesOnCell"] = (("nCells", "maxEdges"), pad(fe, W, padding, len(keys)))
            ds["cellsOnEdge"] = (("nEdges", "TWO"), pad([[fi for fi, _ in E[k]] for k in keys], 2, "zeros", 1))
            # cellsOnCell[i][j] = the cell across edge j of cell i (0 = no neighbour across that edge); entries beyond nEdgesOnCell are
            # undefined by the MPAS spec and follow the padding style
            coc = np.zeros((len(m.faces), W), dtype=np.int32)
            for fi, f in enumerate(m.faces):
                nb = [([x for x, _ in E[frozenset((f[j], f[(j + 1) % len(f)]))] if x != fi] + [-1])[0] + 1 for j in range(len(f))]
                coc[fi, : len(f)] = nb
                if padding == "repeat-last":
                    coc[fi, len(f):] = nb[-1] if nb[-1] > 0 else (max(nb) if max(nb) > 0 else 0)
                elif padding == "junk":
                    coc[fi, len(f):] = [(5 * fi + 2 * j) % len(m.faces) + 1 for j in range(W - len(f))]
            ds["cellsOnCell"] = (("nCells", "maxEdges"), coc)
            ds["dvEdge"] = (("nEdges",), np.array([float(sph.angle(P[sorted(k)[0]], P[sorted(k)[1]])) for k in keys]) * 6371229.0)
            ds["dcEdge"] = (("nEdges",), np.array([float(sph.angle(FC[E[k][0][0]], FC[E[k][1][0]])) if len(E[k]) == 2 else 0.0 for k in keys]) * 6371229.0)
            ds["areaCell"] = (("nCells",), np.array([sph.poly_area(P[list(f)]) for f in m.faces]))
            EC = np.array([sph.unit(P[sorted(k)[0]] + P[sorted(k)[1]]) for k in keys])
            elon, elat = sph.xyz2ll(EC)
            ds["lonEdge"] = (("nEdges",), np.deg2rad(elon) % (2 * np.pi))
            ds["latEdge"] = (("nEdges",), np.deg2rad(elat))
            exp.update(edge_node=[frozenset(k) for k in keys], face_edge=fe, edge_face=[sorted(fi for fi, _ in E[k]) for k in keys], face_centres=FC, face_areas=np.array([sph.poly_area(P[list(f)]) for f in m.faces]), edge_centres=EC)
    else:
        # cells = nodes of m ; vertices = faces of m
        W = m.width
        ds["cellsOnVertex"] = (("nVertices", "vertexDegree"), pad(m.faces, W, "zeros", 1))
        vd = max(len(v) for v in node_faces.values())
        ds["verticesOnCell"] = (("nCells", "maxEdges"), pad([node_faces.get(n, []) for n in range(m.n_node)], vd, padding, m.n_face))
        ds["nEdgesOnCell"] = (("nCells",), np.array([len(node_faces.get(n, [])) for n in range(m.n_node)], dtype=np.int32))
        cell_xyz, vert_xyz = P, FC
        exp = _expect(m)
        if padding != "zeros" or len({len(f) for f in m.faces}) > 1:
            pass
    clon, clat = sph.xyz2ll(cell_xyz)
    vlon, vlat = sph.xyz2ll(vert_xyz)
    if coords in ("both", "lonlat"):
        ds["lonCell"] = (("nCells",), np.deg2rad(clon) % (2 * np.pi))
        ds["latCell"] = (("nCells",), np.deg2rad(clat))
        ds["lonVertex"] = (("nVertices",), np.deg2rad(vlon) % (2 * np.pi))
        ds["latVertex"] = (("nVertices",), np.deg2rad(vlat))
    if coords in ("both", "xyz"):
        for i, c in enumerate("xyz"):
            ds[c + "Cell"] = (("nCells",), cell_xyz[:, i] * 6371229.0)
            ds[c + "Vertex"] = (("nVertices",), vert_xyz[:, i] * 6371229.0)
    if coords == "xyz" and dual:
        return None  # the dual reader sizes its node dimension from latCell
    ds.attrs = {"model_name": "mpas", "on_a_sphere": "YES", "sphere_radius": 6371229.0}
    _cast_ints(ds, dtype)
    return ds, exp


# --------------------------------------------------------------------------- SCRIP
SCRIP_AXES = [("lon", ["0-360", "pm180"]), ("area", [True]), ("pad", ["repeat-last"]), ("clon", ["same", "0-360", "pm180"]), ("layout", ["C", "F"])]


def scrip(m, lon="0-360", area=True, pad="repeat-last", clon="same", layout="C"):
    import xarray as xr

    lo, la = _ll(m, lon == "0-360")
    W = m.width
    clon_tab = np.zeros((m.n_face, W))
    clat = np.zeros((m.n_face, W))
    for i, f in enumerate(m.faces):
        idx = list(f) + [f[-1]] * (W - len(f))
        clon_tab[i], clat[i] = lo[idx], la[idx]
    P = sph.ll2xyz(*m.lonlat())
    FC = np.array([sph.unit(P[list(f)].mean(axis=0)) for f in m.faces])
    flon, flat = sph.xyz2ll(FC)
    ds = xr.Dataset()
    cconv = lon if clon == "same" else clon  # the centres' longitude convention may differ from the corners'
    clon_t, clat_t = clon_tab, clat
    if layout == "F":
        # corner tables that are not C-ordered in memory (built column-wise / transposed views): same content
        clon_t, clat_t = np.asfortranarray(clon_tab), np.asfortranarray(clat)
    ds["grid_corner_lon"] = (("grid_size", "grid_corners"), clon_t, {"units": "degrees"})
    ds["grid_corner_lat"] = (("grid_size", "grid_corners"), clat_t, {"units": "degrees"})
    ds["grid_center_lon"] = (("grid_size",), flon % 360.0 if cconv == "0-360" else flon, {"units": "degrees"})
    ds["grid_center_lat"] = (("grid_size",), flat, {"units": "degrees"})
    ds["grid_imask"] = (("grid_size",), np.ones(m.n_face, dtype=np.int32))
    ds["grid_area"] = (("grid_size",), np.array([sph.poly_area(P[list(f)]) for f in m.faces]))
    ds["grid_dims"] = (("grid_rank",), np.array([m.n_face], dtype=np.int32))
    return ds, _expect(m, face_centres=FC)


# --------------------------------------------------------------------------- Exodus
EXODUS_AXES = [("coordvar", ["coord", "coordxyz"]), ("blocks", ["by-size", "one-padded"]), ("radius", [1.0, 2.5]), ("dtype", ["int32", "int64"])]


def exodus(m, coordvar="coord", blocks="by-size", radius=1.0, dtype="int32"):
    import xarray as xr

    P = sph.ll2xyz(*m.lonlat()) * radius
    ds = xr.Dataset()
    if coordvar == "coord":
        ds["coord"] = (("num_dim", "num_nodes"), P.T.copy())
    else:
        for i, c in enumerate("xyz"):
            ds["coord" + c] = (("num_nodes",), P[:, i].copy())
        ds["coor_names"] = (("num_dim",), np.array(["x", "y", "z"]))
    sizes = sorted({len(f) for f in m.faces})
    order = []
    if blocks == "by-size":
        for b, k in enumerate(sizes):
            ids = [i for i, f in enumerate(m.faces) if len(f) == k]
            order += ids
            ds["connect%d" % (b + 1)] = (("num_el_in_blk%d" % (b + 1), "num_nod_per_el%d" % (b + 1)), np.array([m.faces[i] for i in ids], dtype=dtype) + 1, {"elem_type": "SHELL%d" % k})
    else:
        if len(sizes) > 1:
            return None  # a single Exodus block holds elements of one type
        ds["connect1"] = (("num_el_in_blk1", "num_nod_per_el1"), np.array(m.faces, dtype=dtype) + 1, {"elem_type": "SHELL%d" % sizes[0]})
        order = list(range(m.n_face))
    ds.attrs = {"api_version": np.float32(5.0), "version": np.float32(5.0), "floating_point_word_size": 8, "file_size": 0, "title": "harness"}
    exp = _expect(m)
    exp["faces"] = [exp["faces"][i] for i in order]
    exp["ordered"] = True  # blocks in file order, elements in block order
    return ds, exp


# --------------------------------------------------------------------------- ESMF
ESMF_AXES = [("start_index", ["absent", 1, 0]), ("centers", [True, False]), ("dtype", ["int32", "int64"]), ("padding", [-1, "junk"]), ("lon", ["0-360", "pm180"]), ("clon", ["same", "0-360", "pm180"])]


def esmf(m, start_index="absent", centers=True, dtype="int32", padding=-1, lon="0-360", clon="same"):
    import xarray as xr

    lo, la = _ll(m, lon == "0-360")
    base = 0 if start_index == 0 else 1
    W = m.width
    t = np.full((m.n_face, W), -1, dtype=dtype)
    for i, f in enumerate(m.faces):
        t[i, : len(f)] = np.asarray(f) + base
        if padding == "junk":
            t[i, len(f):] = [(5 * i + j) % m.n_node + base for j in range(W - len(f))]
    ds = xr.Dataset()
    ds["nodeCoords"] = (("nodeCount", "coordDim"), np.stack([lo, la], axis=1), {"units": "degrees"})
    attrs = {"long_name": "Node indices that define the element connectivity", "_FillValue": np.array(-1, dtype=dtype)[()]}
    if start_index != "absent":
        attrs["start_index"] = np.array(base, dtype=dtype)[()]
    ds["elementConn"] = (("elementCount", "maxNodePElement"), t, attrs)
    ds["numElementConn"] = (("elementCount",), np.array([len(f) for f in m.faces], dtype=np.int8))
    P = sph.ll2xyz(*m.lonlat())
    exp = _expect(m)
    if centers:
        FC = np.array([sph.unit(0.8 * sph.unit(P[list(f)].mean(axis=0)) + 0.2 * P[f[0]]) for f in m.faces])
        flon, flat = sph.xyz2ll(FC)
        ds["centerCoords"] = (("elementCount", "coordDim"), np.stack([flon % 360.0 if (lon if clon == "same" else clon) == "0-360" else flon, flat], axis=1), {"units": "degrees"})
        exp["face_centres"] = FC
    ds.attrs = {"gridType": "unstructured mesh", "version": "0.9"}
    return ds, exp


# --------------------------------------------------------------------------- GEOS-CS
def geos_cs(N=2, centers=True):
    import xarray as xr

    ang = [math.tan(math.radians(-45.0 + 90.0 * i / N)) for i in range(N + 1)]
    clon = np.zeros((6, N + 1, N + 1))
    clat = np.zeros((6, N + 1, N + 1))
    X = np.zeros((6, N + 1, N + 1, 3))
    f = 0
    for axis in range(3):
        for sign in (1, -1):
            for i in range(N + 1):
                for j in range(N + 1):
                    p = [0.0, 0.0, 0.0]
                    p[axis] = float(sign)
                    p[(axis + 1) % 3] = ang[i]
                    p[(axis + 2) % 3] = ang[j]
                    X[f, i, j] = sph.unit(np.array(p) @ np.array([[0.9, 0.1, 0.42], [-0.2, 0.97, 0.1], [-0.39, -0.17, 0.9]]))
            f += 1
    clon, clat = sph.xyz2ll(X)
    ds = xr.Dataset()
    ds["corner_lons"] = (("nf", "YCdim", "XCdim"), clon % 360.0)
    ds["corner_lats"] = (("nf", "YCdim", "XCdim"), clat)
    faces = []
    centres = []
    for f in range(6):
        for i in range(N):
            for j in range(N):
                faces.append(np.array([X[f, i, j], X[f, i, j + 1], X[f, i + 1, j + 1], X[f, i + 1, j]]))
                centres.append(sph.unit(faces[-1].mean(axis=0)))
    if centers:
        flon, flat = sph.xyz2ll(np.array(centres).reshape(6, N, N, 3))
        ds["lons"] = (("nf", "Ydim", "Xdim"), flon % 360.0)
        ds["lats"] = (("nf", "Ydim", "Xdim"), flat)
    exp = {"faces": faces, "ordered": True, "orient": "either"}
    if centers:
        exp["face_centres"] = np.array(centres)
    return ds, exp


# --------------------------------------------------------------------------- ICON (triangles only)
ICON_AXES = [("dtype", ["int32", "int64"])]


def _cast_ints(ds, dtype):
    """index tables as the other integer width (in-memory sources are often int64: numpy's default)"""
    if dtype != "int32":
        for v in list(ds.data_vars):
            if ds[v].dtype.kind == "i":
                ds[v] = (ds[v].dims, np.ascontiguousarray(ds[v].values.astype(dtype)), dict(ds[v].attrs))


def icon(m, dtype="int32"):
    import xarray as xr

    if {len(f) for f in m.faces} != {3}:
        return None
    lon, lat = m.lonlat()
    P = sph.ll2xyz(lon, lat)
    keys, E = _edges(m)
    idx = {k: i for i, k in enumerate(keys)}
    FC = np.array([sph.unit(P[list(f)].mean(axis=0)) for f in m.faces])
    EC = np.array([sph.unit(P[sorted(k)[0]] + P[sorted(k)[1]]) for k in keys])
    flon, flat = sph.xyz2ll(FC)
    elon, elat = sph.xyz2ll(EC)
    ds = xr.Dataset()
    ds["vlon"] = (("vertex",), np.deg2rad(lon))
    ds["vlat"] = (("vertex",), np.deg2rad(lat))
    ds["clon"] = (("cell",), np.deg2rad(flon))
    ds["clat"] = (("cell",), np.deg2rad(flat))
    ds["elon"] = (("edge",), np.deg2rad(elon))
    ds["elat"] = (("edge",), np.deg2rad(elat))
    ds["vertex_of_cell"] = (("nv", "cell"), (np.array(m.faces, dtype=np.int32) + 1).T.copy())
    fe = [[idx[frozenset((f[j], f[(j + 1) % 3]))] for j in range(3)] for f in m.faces]
    ds["edge_of_cell"] = (("nv", "cell"), (np.array(fe, dtype=np.int32) + 1).T.copy())
    nb = np.zeros((m.n_face, 3), dtype=np.int32)
    for fi, f in enumerate(m.faces):
        for j in range(3):
            fl = [x for x, _ in E[frozenset((f[j], f[(j + 1) % 3]))] if x != fi]
            nb[fi, j] = (fl[0] + 1) if fl else 0
    ds["neighbor_cell_index"] = (("nv", "cell"), nb.T.copy())
    ef = np.zeros((len(keys), 2), dtype=np.int32)
    for i, k in enumerate(keys):
        fl = [x for x, _ in E[k]]
        ef[i, : len(fl)] = np.array(fl) + 1
    ds["adjacent_cell_of_edge"] = (("nc", "edge"), ef.T.copy())
    ds["edge_vertices"] = (("nc", "edge"), (np.array([sorted(k) for k in keys], dtype=np.int32) + 1).T.copy())
    ds.attrs = {"grid_file_uri": "harness", "number_of_grid_used": 0}
    _cast_ints(ds, dtype)
    exp = _expect(m, edge_node=[frozenset(k) for k in keys], face_edge=fe, edge_face=[sorted(x for x, _ in E[k]) for k in keys], face_centres=FC, edge_centres=EC)
    return ds, exp


# --------------------------------------------------------------------------- GeoJSON / shapefile
def geojson(m, path, multi=False):
    lon, lat = m.lonlat()
    feats = []
    for f in m.faces:
        ring = [[float(lon[i]), float(lat[i])] for i in f]
        ring.append(ring[0])
        geom = {"type": "MultiPolygon", "coordinates": [[ring]]} if multi else {"type": "Polygon", "coordinates": [ring]}
        feats.append({"type": "Feature", "properties": {}, "geometry": geom})
    json.dump({"type": "FeatureCollection", "features": feats}, open(path, "w"))
    return path, dict(_expect(m), orient="either")


def shapefile(m, path):
    import geopandas as gpd
    from shapely.geometry import Polygon

    lon, lat = m.lonlat()
    gdf = gpd.GeoDataFrame({"geometry": [Polygon([(float(lon[i]), float(lat[i])) for i in f]) for f in m.faces]}, crs="EPSG:4326")
    gdf.to_file(path)
    return path, dict(_expect(m), orient="either")


# --------------------------------------------------------------------------- face-vertex arrays / topology dict
def face_vertices(m, container="list", latlon=True, layout="3d"):
    lon, lat = m.lonlat()
    P = sph.ll2xyz(lon, lat)
    W = m.width
    uniform = len({len(f) for f in m.faces}) == 1
    rows = []
    for f in m.faces:
        r = [[float(lon[i]), float(lat[i])] if latlon else [float(c) for c in P[i]] for i in f]
        r += [[float(INT_FILL)] * (2 if latlon else 3)] * (W - len(f))
        rows.append(r)
    if layout == "2d":
        if m.n_face != 1:
            return None
        rows = rows[0]
    obj = rows
    if container == "tuple":
        obj = tuple(tuple(tuple(p) for p in r) for r in rows) if layout == "3d" else tuple(tuple(p) for p in rows)
    elif container == "ndarray":
        obj = np.array(rows, dtype=float)
    return obj, dict(_expect(m), latlon=latlon, ragged=not uniform)


def topology(m, fill="INT_FILL", start_index=0, extra="none", lon="pm180"):
    extra_lon360 = extra.endswith("-lon360")  # centre longitudes in 0..360 whatever the node convention is
    extra = extra.replace("-lon360", "")
    lo, la = _ll(m, lon == "0-360")
    uniform = len({len(f) for f in m.faces}) == 1
    if fill is None and not uniform:
        return None
    if fill == 0 and start_index == 0:
        return None  # 0 cannot be both a node index and the padding value
    fv = {"INT_FILL": INT_FILL}.get(fill, fill)
    t = m.table(fill=fv if fv is not None else 0)
    t = np.where(m.table() == INT_FILL, t, m.table() + start_index)
    d = {"node_lon": lo.copy(), "node_lat": la.copy(), "face_node_connectivity": t, "fill_value": fv, "start_index": start_index}
    exp = _expect(m)
    P = sph.ll2xyz(*m.lonlat())
    if extra in ("edges", "edges+centres"):
        keys, E = _edges(m, "reversed")
        d["edge_node_connectivity"] = np.array([sorted(k) for k in keys], dtype=np.intp) + start_index
        exp["edge_node"] = [frozenset(k) for k in keys]
    if extra in ("centres", "edges+centres"):
        FC = np.array([sph.unit(0.7 * sph.unit(P[list(f)].mean(axis=0)) + 0.3 * P[f[0]]) for f in m.faces])
        flon, flat = sph.xyz2ll(FC)
        d["face_lon"], d["face_lat"] = (flon % 360.0 if extra_lon360 else flon), flat
        exp["face_centres"] = FC
    return d, exp


def vectors(axes, k):
    """all dialect vectors with at most k deviations from the default (first value of every axis)"""
    default = tuple(a[1][0] for a in axes)
    out = [default]
    for r in range(1, k + 1):
        for which in itertools.combinations(range(len(axes)), r):
            for vals in itertools.product(*[axes[i][1][1:] for i in which]):
                v = list(default)
                for i, x in zip(which, vals):
                    v[i] = x
                out.append(tuple(v))
    return out
