#!/bin/bash
# usage: seedall.sh [jobs] [tier] : runs every kept seeded change (seeded/<id>/patch.diff) against its property's check in a scratch
# worktree (tools/seedrun2.sh) and prints one line per seed; exit 1 if any seeded change is NOT reported by its check.
jobs=${1:-4}; tier=${2:-quick}
HERE=$(cd "$(dirname "$0")/.." && pwd)
mkdir -p /tmp/seedwork
ls -d "$HERE"/seeded/C*-* | while read d; do grep -q '"status": "superseded' $d/meta.json && continue; p=$(basename $d | cut -d- -f1); echo "$p $d $tier"; done | xargs -P $jobs -L 1 bash "$HERE/tools/seedrun2.sh" > /tmp/seedwork/seedall.out 2>&1
sort /tmp/seedwork/seedall.out | awk '{print $1, $2, $4, $5}'
missed=$(grep -c "exit=0" /tmp/seedwork/seedall.out); broken=$(grep -c "exit=2\|FAIL" /tmp/seedwork/seedall.out)
echo "seeded changes: $(wc -l < /tmp/seedwork/seedall.out); not reported: $missed; machinery errors: $broken"
[ "$missed" = 0 ] && [ "$broken" = 0 ]
