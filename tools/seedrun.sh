#!/bin/bash
# usage: seedrun.sh <Cxx> <outdir> [tier]: applies the seeded patch to /repo, runs the check, undoes it.
p=$1; d=$2; tier=${3:-quick}
cd /repo && git diff --quiet || { echo "$p $d REPO-DIRTY"; exit 2; }
pf=$d/patch.head.diff; [ -s "$pf" ] || pf=$d/patch.diff
git -C /repo apply "$pf" || { echo "$p $d APPLY-FAIL"; exit 2; }
cd /verif && ./check $p --tier $tier --no-evidence > /tmp/seedwork/run-$p-$(basename $d)-$(basename $(dirname $d)).log 2>&1; rc=$?
git -C /repo checkout -- .
nv=$(grep -c "^VIOLATION" /tmp/seedwork/run-$p-$(basename $d)-$(basename $(dirname $d)).log)
sigs=$(grep -o "sig=[^ ]*" /tmp/seedwork/run-$p-$(basename $d)-$(basename $(dirname $d)).log | sort -u | head -5 | tr '\n' ' ')
echo "$p $d tier=$tier exit=$rc violations_lines=$nv $sigs"
