#!/bin/bash
# usage: seedverify.sh <outdir with patch.diff demo.py>  -> prints one line summary; step 1 (independent scratch worktree)
# confirms: patch applies to /repo HEAD, pinned suite still passes with it, demo fails with it and passes without it.
d=$1; tag=$(echo "$d" | tr '/' '_' )
wt=/tmp/seedwork/verify-$tag
git -C /repo worktree add -q --detach "$wt" HEAD 2>/dev/null || { echo "$d WORKTREE-FAIL"; exit 1; }
cd "$wt"
if ! git apply --3way "$d/patch.diff" 2>/tmp/seedwork/apply-$tag.err; then echo "$d APPLY-FAIL"; git -C /repo worktree remove --force "$wt"; exit 1; fi
git reset -q 2>/dev/null
PYTHONPATH=$wt timeout 600 /venv/bin/python -W ignore "$d/demo.py" >/tmp/seedwork/demo-with-$tag.log 2>&1; with=$?
( cd /repo && PYTHONPATH=/repo timeout 600 /venv/bin/python -W ignore "$d/demo.py" >/tmp/seedwork/demo-without-$tag.log 2>&1 ); without=$?
base=$(cd "$wt" && PYTHONPATH=$wt python3 /verif/tools/baseline.py "$wt" 2>&1 | head -3 | tr '\n' ' ')
git -C "$wt" diff > "$d/patch.head.diff"
git -C /repo worktree remove --force "$wt"
echo "$d demo_with=$with demo_without=$without :: $base"
