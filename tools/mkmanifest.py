#!/usr/bin/env python3
"""Regenerates /verif/MANIFEST.json from tools/claims.json (one entry per built check)."""
import json, os
here = os.path.dirname(os.path.abspath(__file__))
root = os.path.dirname(here)
claims = json.load(open(os.path.join(here, "claims.json")))
props = [json.loads(l) for l in open(os.path.join(root, "properties.jsonl"))]
checks, na = [], []
for p in props:
    pid = p["id"]
    c = claims.get(pid)
    if not c or c.get("not_applicable"):
        na.append({"property_id": pid, "reason": (c or {}).get("not_applicable", "check not built yet (planned in DESIGN.md section 6); nothing is claimed for this property")})
        continue
    checks.append({
        "property_id": pid,
        "quick_cmd": "./check %s --tier quick" % pid,
        "thorough_cmd": "./check %s --tier thorough" % pid,
        "evidence_file": "/verif/evidence/%s.json" % pid,
        "replay_cmd_template": "./check %s --replay {path}" % pid,
        "engine": c.get("engine", "vf"),
        "level_claimed": {"category": "model_checking", "text": c["text"], "design_ref": c.get("design_ref", "DESIGN.md section 6, " + pid)},
        "level_note": c["note"],
        "technique": c["technique"],
    })
m = {
    "version": 1,
    "setup_cmd": "cd /verif && /venv/bin/python -m compileall -q vf && /venv/bin/python -W ignore tools/selfcheck.py",
    "hooks": {
        "guard": "UXARRAY_VERIF",
        "enable": "no source hooks exist: checks observe /repo's working tree through its public API (editable install, imported from /repo); UXARRAY_VERIF is reserved and unused",
        "baseline_off_cmd": "cd /repo && /venv/bin/python -m pytest -ra -q -p no:cacheprovider --timeout=900 --continue-on-collection-errors",
        "source_commits": [],
        "add_only": True,
    },
    "engines": [{"name": "vf", "path": "/verif/vf", "serves_properties": [c["property_id"] for c in checks],
                 "kind_free_text": "hand-written bounded-exhaustive explorers executing the real implementation: H (BFS over operation histories with state hashing), I (small-scope input/deviation enumeration), G (exact rational geometry lattices)"}],
    "checks": checks,
    "not_applicable": na,
    "notes": "All checks run /venv/bin/python against /repo's working tree; evidence is written by the check itself. known_findings.txt lists genuine defects recorded rather than repaired and the fix: commits made.",
}
json.dump(m, open(os.path.join(root, "MANIFEST.json"), "w"), indent=1)
print("checks:", [c["property_id"] for c in checks], "not_applicable:", len(na))
