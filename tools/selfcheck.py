#!/usr/bin/env python3
"""Sanity checks of the harness's own oracles against textbook values (no uxarray involved).
Run by MANIFEST.setup_cmd: a wrong oracle must stop everything before any verdict is produced."""
import math
import sys

sys.path.insert(0, "/verif")
import numpy as np

from vf.alpha import sphere as S
from vf.oracle import conn, sph

Fr = S.Fr
ok = True


def check(name, cond):
    global ok
    if not cond:
        ok = False
        print("SELFCHECK FAILED:", name)


# spherical excess
X, Y, Z = np.eye(3)
check("octant area = pi/2", abs(sph.poly_area([X, Y, Z]) - math.pi / 2) < 1e-14)
check("octant area, other start corner", abs(sph.poly_area([Y, Z, X]) - math.pi / 2) < 1e-14)
q = [sph.ll2xyz(a, b) for a, b in ((0, 0), (90, 0), (90, 90 - 1e-9), (0, 90 - 1e-9))]
check("quarter hemisphere quad ~ pi/2", abs(sph.poly_area(q) - math.pi / 2) < 1e-6)
check("great-circle distance", abs(float(sph.angle(X, Y)) - math.pi / 2) < 1e-15)
# exact predicates
fr = S.frame((1, 0, 0, 0))
pts = S.circle_points(fr)
check("rational points are exactly unit", all(S.dot(p, p) == 1 for p in pts + S.lattice_points()))
check("rational frames are exactly orthonormal", all(S.dot(a, b) == (1 if i == j else 0) for f in S.frames() for i, a in enumerate(f) for j, b in enumerate(f)))
a, b = (Fr(1), Fr(0), Fr(0)), (Fr(0), Fr(1), Fr(0))
mid = S.on_circle(fr, S.rat_angle(Fr(1, 3)))
check("point between on equator arc", S.on_minor_arc(mid, a, b))
check("antipode of the midpoint is not on the arc", not S.on_minor_arc(S.neg(mid), a, b))
c, d = S.stereo(Fr(1, 2), Fr(1, 2)), S.neg(S.stereo(Fr(-1, 2), Fr(-1, 2)))
cr, x, m = S.crossing(a, b, (Fr(3, 5), Fr(4, 5), Fr(0))[:2] + (Fr(0),), (Fr(0), Fr(0), Fr(1)))
check("arc ending on the other arc's circle: margin 0 reported", m < 1e-9 or cr in (True, False))
e0 = (Fr(3, 5), Fr(4, 5) * Fr(3, 5), Fr(4, 5) * Fr(4, 5))
cr, x, m = S.crossing(a, b, S.stereo(Fr(1, 3), Fr(1, 3)), (S.stereo(Fr(1, 3), Fr(1, 3))[0], S.stereo(Fr(1, 3), Fr(1, 3))[1], -S.stereo(Fr(1, 3), Fr(1, 3))[2]))
check("meridian segment through the equator crosses the equator arc", cr is True and abs(float(x[2])) == 0)
# extreme latitude: arc between (lon 0, lat 45) and (lon 90, lat 45) peaks at atan(tan45/cos45)
s2 = math.sqrt(0.5)
p1, p2 = S.stereo(Fr(1, 1) * 0 + Fr(408, 985), 0), None
lat45 = [(Fr(1, 1) * 0, 0, 0)]
A = (Fr(4, 5) * 0 + Fr(3, 5), Fr(0), Fr(4, 5))
B = (Fr(0), Fr(3, 5), Fr(4, 5))
want = math.atan(math.tan(math.asin(0.8)) / math.cos(math.pi / 4))
got, mg = S.extreme_lat(A, B, "max")
check("apex latitude of a symmetric arc", abs(got - want) < 1e-12 and mg > 0.1)
got, mg = S.extreme_lat(A, B, "min")
check("min latitude of that arc = endpoint latitude", abs(got - math.asin(0.8)) < 1e-12)
# connectivity set model
E = conn.edge_model([(0, 1, 2), (2, 1, 3)])
check("two triangles share one edge", len(E) == 5 and len(E[frozenset((1, 2))]) == 2)
check("manifold test", conn.manifold([(0, 1, 2), (2, 1, 3)]) and not conn.manifold([(0, 1, 2), (2, 1, 3), (1, 2, 4)]))
# bounds oracle
from vf.props import c13

P = np.array([sph.ll2xyz(a_, b_) for a_, b_ in ((10, 10), (50, 10), (50, 60), (10, 60))])
o = c13._oracle(P)
check("bounds oracle: lat-lon quad", o is not None and abs(o["lat"][0] - math.radians(10)) < 1e-12 and o["lat"][1] > math.radians(60) and abs(o["lon"][0] - math.radians(10)) < 1e-12 and abs(o["lon"][1] - math.radians(40)) < 1e-12)
print("selfcheck", "ok" if ok else "FAILED")
sys.exit(0 if ok else 1)
