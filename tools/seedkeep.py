#!/usr/bin/env python3
"""Copies a verified seeded change into /verif/seeded/<id>/ (patch.diff against the /repo HEAD it was verified on,
the agent's demonstration, meta.json).  usage: seedkeep.py <Cxx> <n> <detected_by> <note> [<wave> <dst n>]
(wave 4: sources in /tmp/seedwork/out4-<Cxx>/<n>, kept under /verif/seeded/<Cxx>-<dst n>)"""
import json, os, shutil, subprocess, sys
pid, n, detected, note = sys.argv[1], sys.argv[2], sys.argv[3], sys.argv[4]
wave = sys.argv[5] if len(sys.argv) > 5 else ""
dn = sys.argv[6] if len(sys.argv) > 6 else n
src = "/tmp/seedwork/out%s-%s/%s" % (wave, pid, n)
dst = "/verif/seeded/%s-%s" % (pid, dn)
os.makedirs(dst, exist_ok=True)
pf = os.path.join(src, "patch.head.diff")
if not os.path.exists(pf) or os.path.getsize(pf) == 0:
    pf = os.path.join(src, "patch.diff")
shutil.copy(pf, os.path.join(dst, "patch.diff"))
shutil.copy(os.path.join(src, "demo.py"), os.path.join(dst, "demo.py"))
meta = json.load(open(os.path.join(src, "meta.json")))
ver = open(("/tmp/seedwork/verify%s-out%s-%s-%s.txt" % (wave, wave, pid, n)) if wave else ("/tmp/seedwork/verify-%s-%s.txt" % (pid, n))).read().strip()
head = subprocess.run(["git", "-C", "/repo", "log", "--format=%h", "-1"], capture_output=True, text=True).stdout.strip()
out = {
    "id": "%s-%s" % (pid, dn),
    "property": pid,
    "summary": meta.get("summary"),
    "needs": meta.get("needs"),
    "files": meta.get("files"),
    "author": "independent sub-agent given only the property text and a scratch worktree",
    "confirmed_by_me": {
        "verified_on_repo_head": head,
        "scratch_worktree_run": ver,
        "meaning": "patch applies; pinned suite 177/177 with the patch; demo.py exits non-zero with the patch and 0 without it",
    },
    "detected_by": detected,
    "note": note,
    "agent_ran": meta.get("ran"),
}
json.dump(out, open(os.path.join(dst, "meta.json"), "w"), indent=1)
print("kept", dst)
