#!/usr/bin/env python3
"""Runs the repository's pinned baseline and reports which stable-pass tests no longer pass."""
import json, subprocess, sys, tempfile, xml.etree.ElementTree as ET, os
repo = sys.argv[1] if len(sys.argv) > 1 else "/repo"
base = json.load(open("/root/.vp/BASELINE.json"))
out = tempfile.mktemp(suffix=".xml", dir="/var/tmp")
env = dict(os.environ); env.pop("UXARRAY_VERIF", None)
subprocess.run(["/venv/bin/python", "-m", "pytest", "-ra", "-q", "-p", "no:cacheprovider", "--timeout=900",
                "--continue-on-collection-errors", "--junitxml=" + out], cwd=repo, stdout=subprocess.DEVNULL, stderr=subprocess.DEVNULL, env=env)
passed = set()
for tc in ET.parse(out).getroot().iter("testcase"):
    if not any(c.tag in ("failure", "error", "skipped") for c in tc):
        passed.add(tc.get("classname") + "::" + tc.get("name"))
os.unlink(out)
missing = [t for t in base["stable_pass"] if t not in passed]
print("baseline: %d/%d stable tests pass; newly passing: %d" % (len(base["stable_pass"]) - len(missing), len(base["stable_pass"]), len(passed - set(base["stable_pass"]))))
for t in missing:
    print("  MISSING", t)
sys.exit(1 if missing else 0)
