#!/bin/bash
# usage: seedrun2.sh <Cxx> <outdir> [tier]: like seedrun.sh but leaves /repo alone: the seeded patch is applied to a scratch
# worktree of /repo's HEAD and the check imports uxarray from there (VERIF_REPO).  Lets several seeded runs go in parallel.
p=$1; d=$2; tier=${3:-quick}; tag=$(echo "$d" | tr '/' '_')
HERE=$(cd "$(dirname "$0")/.." && pwd)   # the harness this script belongs to (/verif, or a snapshot of it)
wt=/tmp/seedwork/run-wt-$tag
git -C /repo worktree add -q --detach "$wt" HEAD 2>/dev/null || { echo "$p $d WORKTREE-FAIL"; exit 2; }
pf=$d/patch.head.diff; [ -s "$pf" ] || pf=$d/patch.diff
git -C "$wt" apply "$pf" || { echo "$p $d APPLY-FAIL"; git -C /repo worktree remove --force "$wt"; exit 2; }
log=/tmp/seedwork/run-$p-$tag.log
( cd "$HERE" && VERIF_REPO=$wt ./check $p --tier $tier --no-evidence > $log 2>&1 ); rc=$?
git -C /repo worktree remove --force "$wt"
nv=$(grep -c "^VIOLATION" $log)
sigs=$(grep -o "sig=[^ ]*" $log | sort -u | head -5 | tr '\n' ' ')
echo "$p $d tier=$tier exit=$rc violations_lines=$nv $sigs"
